#!/bin/bash
# tools/run_all.sh <tier> [Cnn ...] : run checks one after the other against /repo, print each summary line
tier=${1:-quick}; shift
cd "$(dirname "$(readlink -f "$0")")/.."
list="$@"; [ -z "$list" ] && list="C01 C02 C03 C04 C05 C06 C07 C08 C09 C10 C11 C12 C13 C14 C15 C16 C18 C19 C20"
for c in $list; do
  s=$(date +%s)
  out=$(./check $c $tier 2>&1); rc=$?
  echo "$c rc=$rc $(( $(date +%s) - s ))s :: $(echo "$out" | tail -1 | cut -c1-260)"
  echo "$out" | grep -E '^(VIOLATION|HARNESS-ERROR|INCONCLUSIVE|KNOWN-FINDING)' | cut -c1-300 | head -6
done
