#!/bin/bash
# tools/confirm_seed.sh <srcdir with patch.diff + demo> <seed-id> <property> : confirm in a scratch worktree, then store under /verif/seeded/<seed-id>/
src=$1; id=$2; prop=$3
wt=/tmp/confirm.$id
git -C /repo worktree remove --force $wt 2>/dev/null
git -C /repo worktree add -q --detach $wt HEAD || exit 9
demo=$(ls $src/demo.py $src/test_demo.py 2>/dev/null | head -1)
cd $wt
run_demo() { if [[ $demo == *test_demo.py ]]; then /venv/bin/python -m pytest -q -p no:cacheprovider $demo >/tmp/confirm.$id.out 2>&1; else /venv/bin/python $demo >/tmp/confirm.$id.out 2>&1; fi; echo $?; }
orig=$(run_demo)
git apply $src/patch.diff || { echo "patch does not apply"; exit 9; }
/venv/bin/python -c "import adb_shell,sys; sys.exit(0)" || { echo "does not import"; }
mut=$(run_demo)
suite=$(/venv/bin/python -m pytest -q -p no:cacheprovider 2>&1 | tail -1)
git checkout -q -- . ; rm -f NOWHERE
cd /verif
git -C /repo worktree remove --force $wt
echo "$id: demo on original exit=$orig, demo with patch exit=$mut, suite with patch: $suite"
if [ "$orig" = 0 ] && [ "$mut" != 0 ] && echo "$suite" | grep -q '177 passed'; then
  mkdir -p seeded/$id && cp $src/patch.diff $demo seeded/$id/ && cp $src/notes.md seeded/$id/notes.md 2>/dev/null
  cat > seeded/$id/meta.json <<EOM
{"id": "$id", "breaks_property": "$prop", "source": "independent sub-agent given only the property text and a scratch worktree",
 "confirmed": {"demo_on_original_exit": $orig, "demo_with_patch_exit": $mut, "test_suite_with_patch": "$suite"},
 "ran": "git worktree add; demo on original; git apply patch.diff; demo; /venv/bin/python -m pytest -q; worktree removed",
 "needs_to_manifest": "see notes.md"}
EOM
  echo "  stored in seeded/$id"
else
  echo "  NOT confirmed"
fi
