#!/usr/bin/env python3
"""selftest/seed_matrix_final.txt + seeded/*/notes.md -> markdown table for DESIGN.md section 7"""
import json, os, re, sys
ROOT = os.path.dirname(os.path.dirname(os.path.abspath(__file__)))
rows = {}
for l in open(os.path.join(ROOT, 'selftest', 'seed_matrix_final.txt')):
    m = re.match(r'(\S+) == (C\d\d) exit=(\d)', l)
    if m:
        rows.setdefault(m.group(1), {})[m.group(2)] = int(m.group(3))


def short(seed):
    f = os.path.join(ROOT, 'seeded', seed, 'notes.md')
    t = open(f).read() if os.path.exists(f) else ''
    lines = [x.strip(' -*#') for x in t.splitlines() if x.strip() and not x.startswith('#')]
    s = ' '.join(lines)
    s = re.sub(r'\*\*|`', '', s)
    s = re.sub(r'^(Change|What the change is|Mutant \d+)[:.]?\s*', '', s, flags=re.I)
    return (s[:150] + '…') if len(s) > 150 else s


print('| seed | breaks | change (from the author\'s notes) | caught by (quick) | also run, not caught |')
print('|---|---|---|---|---|')
for seed in sorted(rows):
    meta = json.load(open(os.path.join(ROOT, 'seeded', seed, 'meta.json')))
    r = rows[seed]
    caught = [c for c, e in sorted(r.items()) if e == 1]
    missed = [c + ('(inconclusive)' if e == 2 else '(harness error)' if e == 3 else '') for c, e in sorted(r.items()) if e != 1]
    print('| %s | %s | %s | %s | %s |' % (seed, meta['breaks_property'], short(seed).replace('|', '/'), ', '.join(caught) or '**none**', ', '.join(missed) or '—'))
