#!/bin/bash
# tools/seed_matrix.sh [tier] : run, for every seeded change, the check of the property it breaks (plus extra checks given in
# tools/seed_extra.txt) against a scratch copy with the patch applied; prints one line per (seed, check)
tier=${1:-quick}
filter=${2:-.}
cd "$(dirname "$(readlink -f "$0")")/.."
for d in seeded/*/; do
  n=$(basename $d); echo $n | grep -Eq "$filter" || continue; p=$(python3 -c "import json;print(json.load(open('$d/meta.json'))['breaks_property'])")
  extra=$(grep "^$n " tools/seed_extra.txt 2>/dev/null | cut -d' ' -f2-)
  for c in $p $extra; do
    r=$(tools/try_seed.sh $d/patch.diff $tier $c 2>&1 | grep '^== ' | head -1)
    echo "$n $r"
  done
done
