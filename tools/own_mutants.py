#!/usr/bin/env python3
"""Hand-written classic mutants (DESIGN.md section 7): each is a textual edit of the current /repo source applied to a scratch
copy; the pinned suite must still pass; the listed quick checks must report a VIOLATION.  Results -> selftest/own_mutants.json"""
import json, os, shutil, subprocess, sys, tempfile

ROOT = os.path.dirname(os.path.dirname(os.path.abspath(__file__)))
D, A, H, M = 'adb_shell/adb_device.py', 'adb_shell/adb_device_async.py', 'adb_shell/hidden_helpers.py', 'adb_shell/adb_message.py'
T, TA, U = 'adb_shell/transport/tcp_transport.py', 'adb_shell/transport/tcp_transport_async.py', 'adb_shell/transport/usb_transport.py'
MUTANTS = [
    ('checksum-mask-16bit', [(M, 'return total & 0xFFFFFFFF', 'return total & 0xFFFF')], ['C02']),
    ('magic-of-wrong-word', [(M, 'self.magic = self.command ^ 0xFFFFFFFF', 'self.magic = (self.command ^ 0xFFFFFFFF) if command != constants.CLSE else (constants.ID_TO_WIRE[constants.OKAY] ^ 0xFFFFFFFF)')], ['C02']),
    ('read-header-size-always', [(D, 'temp = self._transport.bulk_read(length, adb_info.transport_timeout_s)', 'temp = self._transport.bulk_read(max(length, constants.MESSAGE_SIZE), adb_info.transport_timeout_s)[:length]')], ['C03']),
    ('ack-only-nonempty-wrte', [(D, "        if cmd == constants.WRTE:\n            self._okay(adb_info)", "        if cmd == constants.WRTE and data:\n            self._okay(adb_info)")], ['C04', 'C01']),
    ('ack-a-clse', [(D, "        if cmd == constants.WRTE:\n            self._okay(adb_info)", "        if cmd in (constants.WRTE, constants.CLSE):\n            self._okay(adb_info)")], ['C04']),
    ('okay-swapped-ids', [(D, 'msg = AdbMessage(constants.OKAY, adb_info.local_id, adb_info.remote_id)', 'msg = AdbMessage(constants.OKAY, adb_info.remote_id, adb_info.local_id)')], ['C04']),
    ('args-match-ignores-remote', [(H, "return arg1 == self.local_id and (self.remote_id is None or arg0 == self.remote_id)", "return arg1 == self.local_id")], ['C06', 'C01']),
    ('flush-threshold-le', [(H, 'return self.send_idx + added_len < self._maxdata', 'return self.send_idx + added_len <= self._maxdata + 8')], ['C07']),
    ('chunk-is-maxdata', [(D, 'return min(constants.MAX_CHUNK_SIZE, self._maxdata // 2) or constants.MAX_PUSH_DATA', 'return min(constants.MAX_CHUNK_SIZE, self._maxdata) or constants.MAX_PUSH_DATA')], ['C07']),
    ('read-buffered-off-by-one', [(D, 'filesync_info.recv_buffer = filesync_info.recv_buffer[size:]\n        return result', 'filesync_info.recv_buffer = filesync_info.recv_buffer[size + (1 if len(filesync_info.recv_buffer) > size + 40 else 0):]\n        return result')], ['C08', 'C09']),
    ('pull-no-finally', [(D, "            try:\n                self._pull(device_path, stream, progress_callback, adb_info, filesync_info)\n            finally:\n                self._clse(adb_info)", "            self._pull(device_path, stream, progress_callback, adb_info, filesync_info)\n            self._clse(adb_info)")], ['C04', 'C10']),
    ('timeouts-max-instead-of-min', [(H, 'self.transport_timeout_s = self.read_timeout_s if transport_timeout_s is None else min(transport_timeout_s, self.read_timeout_s)', 'self.transport_timeout_s = self.read_timeout_s if transport_timeout_s is None else max(transport_timeout_s, self.read_timeout_s)')], ['C11']),
    ('pubkey-of-last-key', [(D, 'pubkey = rsa_keys[0].GetPublicKey()', 'pubkey = rsa_keys[-1].GetPublicKey()')], ['C05']),
    ('available-before-handshake', [(D, "        # Mark the device as unavailable\n        self._available = False", "        # Mark the device as unavailable\n        self._available = self._available")], ['C13', 'C05']),
    ('wrap-one-late', [(D, 'if self._local_id == 2**32:', 'if self._local_id == 2**32 + 1:')], ['C14']),
    ('no-id-lock-async-style', [(D, "        with self._local_id_lock:\n            self._local_id += 1", "        if True:\n            self._local_id += 1")], ['C14', 'C06']),
    ('find-wildcard-swapped', [(H, "return next(((arg0, key1) for key1, val1 in self._dict.items() for key0, val0 in val1.items() if key0 == arg0 and not val0.empty()), None)", "return next(((arg0, key1) for key1, val1 in self._dict.items() for key0, val0 in val1.items() if key1 == arg0 and not val0.empty()), None)")], ['C19']),
    ('get-keeps-entry-on-clse', [(H, "        if cmd == constants.CLSE:\n            self.clear(arg0, arg1)\n\n        return cmd, arg0, arg1, data", "        return cmd, arg0, arg1, data")], ['C19']),
    ('store-not-cleared-on-connect', [(D, "            with self._store_lock:\n                # We can release this lock because packets are only added to the store when the transport lock is held\n                self._packet_store.clear_all()", "            pass")], ['C12']),
    ('lock-released-on-happy-path-only', [(D, "    def send(self, msg, adb_info):", "    def send(self, msg, adb_info):\n        self._transport_lock.acquire()\n        self._send(msg, adb_info)\n        self._transport_lock.release()\n        return\n")], ['C12']),
    ('tcp-recv-one-more', [(T, 'return self._connection.recv(numbytes)', 'return self._connection.recv(numbytes + 1)')], ['C18']),
    ('tcp-no-timeout-raise', [(T, "        msg = 'Reading from {}:{} timed out ({} seconds)'.format(self._host, self._port, transport_timeout_s)\n        raise TcpTimeoutException(msg)", "        return b''")], ['C18']),
    ('usb-timeout-seconds', [(U, 'return int(transport_timeout_s * 1000 if transport_timeout_s is not None else self._default_transport_timeout_s * 1000)', 'return int(transport_timeout_s * 1000 if transport_timeout_s is not None else self._default_transport_timeout_s)')], ['C20']),
    ('usb-write-to-in-endpoint', [(U, 'return self._transport.bulkWrite(self._write_endpoint, data, timeout=self._timeout_ms(transport_timeout_s))', 'return self._transport.bulkWrite(self._read_endpoint & 0x7F, data, timeout=self._timeout_ms(transport_timeout_s))')], ['C20']),
    ('async-only-ack-nonempty', [(A, "        if cmd == constants.WRTE:\n            await self._okay(adb_info)", "        if cmd == constants.WRTE and data:\n            await self._okay(adb_info)")], ['C16', 'C04']),
    ('async-only-done-time', [(A, "        if mtime == 0:\n            mtime = int(time.time())", "        if mtime == 0:\n            mtime = int(time.time()) + 1")], ['C16', 'C07']),
    ('sign-first-token-again', [(D, "                cmd, arg0, maxdata, banner2 = self._read_expected_packet_from_device([constants.CNXN, constants.AUTH], adb_info)\n\n                # 6.4.", "                cmd, arg0, maxdata, _ = self._read_expected_packet_from_device([constants.CNXN, constants.AUTH], adb_info)\n\n                # 6.4.")], ['C05']),
    ('done-before-last-data', [(D, "        if mtime == 0:\n            mtime = int(time.time())", "        if mtime == 0:\n            mtime = int(time.time()) & 0xFFFFFFF0")], ['C07']),
    ('stat-fields-swapped', [(D, '        return mode, size, mtime', '        return mode, mtime, size') ], ['C09']),
    ('list-drops-256th', [(D, "            files.append(DeviceFile(filename, mode, size, mtime))", "            if len(files) < 128:\n                files.append(DeviceFile(filename, mode, size, mtime))")], ['C09']),
]


def main():
    only = sys.argv[1] if len(sys.argv) > 1 else None
    out = []
    for name, edits, checks in MUTANTS:
        if only and only not in name:
            continue
        d = tempfile.mkdtemp(prefix='ownmut.')
        try:
            shutil.copytree('/repo/adb_shell', d + '/adb_shell')
            shutil.copytree('/repo/tests', d + '/tests')
            ok = True
            for f, old, new in edits:
                s = open(os.path.join(d, f)).read()
                if s.count(old) != 1:
                    ok = False
                    print('%-34s EDIT DOES NOT APPLY (%d matches) in %s' % (name, s.count(old), f))
                    break
                open(os.path.join(d, f), 'w').write(s.replace(old, new))
            if not ok:
                out.append({'mutant': name, 'status': 'edit does not apply'})
                continue
            p = subprocess.run(['/venv/bin/python', '-m', 'pytest', '-q', '-p', 'no:cacheprovider', '-x', 'tests'], cwd=d, capture_output=True, text=True)
            tail = (p.stdout.strip().splitlines() or [''])[-1]
            if p.returncode != 0:
                print('%-34s caught by the existing suite (%s) - not a useful mutant' % (name, tail))
                out.append({'mutant': name, 'status': 'caught by the pinned suite', 'suite': tail})
                continue
            res = {}
            for c in checks:
                env = dict(os.environ, SX_REPO=d, SX_OUT=d)
                q = subprocess.run([os.path.join(ROOT, 'check'), c, 'quick'], capture_output=True, text=True, env=env)
                nviol = q.stdout.count('\nVIOLATION') + (1 if q.stdout.startswith('VIOLATION') else 0)
                first = [l for l in q.stdout.splitlines() if 'failing assertion' in l][:1]
                res[c] = {'exit': q.returncode, 'violation_lines': nviol, 'first': first[0].strip()[:200] if first else ''}
            caught = [c for c, r in res.items() if r['exit'] == 1]
            print('%-34s suite: %s | %s' % (name, tail, ' '.join('%s=%d' % (c, r['exit']) for c, r in res.items())))
            out.append({'mutant': name, 'status': 'survives the pinned suite', 'suite': tail, 'checks': res, 'caught_by': caught})
        finally:
            shutil.rmtree(d, ignore_errors=True)
    if not only:
        os.makedirs(os.path.join(ROOT, 'selftest'), exist_ok=True)
        json.dump(out, open(os.path.join(ROOT, 'selftest', 'own_mutants.json'), 'w'), indent=1)


if __name__ == '__main__':
    main()
