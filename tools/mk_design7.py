#!/usr/bin/env python3
"""regenerate the tables of DESIGN.md section 7 from selftest/seed_matrix_final.txt and selftest/own_mutants.json"""
import subprocess, json, re, os
ROOT = os.path.dirname(os.path.dirname(os.path.abspath(__file__)))
table = subprocess.run(['python3', os.path.join(ROOT, 'tools/mk_seed_table.py')], capture_output=True, text=True).stdout
own = json.load(open(os.path.join(ROOT, 'selftest/own_mutants.json')))
surv = [o for o in own if o['status'].startswith('survives')]
own_rows = '\n'.join('| %s | %s | %s |' % (o['mutant'], ', '.join(o['caught_by']) or '**none**', ', '.join(c for c in o['checks'] if c not in o['caught_by']) or '—') for o in surv)
p = os.path.join(ROOT, 'DESIGN.md'); s = open(p).read()
a = s.index('| seed | breaks |'); b = s.index('"also run, not caught" lists secondary checks')
s = s[:a] + table + '\n' + s[b:]
a = s.index('| mutant | caught by (quick) |'); b = s.index('* **No false alarm**')
s = s[:a] + '| mutant | caught by (quick) | also run, not caught |\n|---|---|---|\n' + own_rows + '\n\n' + s[b:]
open(p, 'w').write(s)
print('seeds', table.count('\n') - 2, 'own surviving', len(surv))
