#!/bin/bash
# tools/try_seed.sh <patch.diff> <tier> <Cnn> [<Cnn> ...] : run checks against a scratch copy of /repo with the patch applied
set -e
patch=$(readlink -f "$1"); tier=$2; shift 2
d=$(mktemp -d /tmp/seedtry.XXXXXX)
cp -r /repo/adb_shell /repo/tests "$d"/ 
(cd "$d" && patch -s -p1 < "$patch")
cd "$(dirname "$(readlink -f "$0")")/.."
rc_all=0
for c in "$@"; do
  set +e
  SX_OUT="$d" SX_REPO="$d" ./check "$c" "$tier" > "$d/out.$c" 2>&1
  rc=$?
  set -e
  echo "== $c exit=$rc :: $(grep -c '^VIOLATION' "$d/out.$c") violations; $(tail -1 "$d/out.$c")"
  grep -m2 -A1 '^VIOLATION\|^HARNESS-ERROR\|^INCONCLUSIVE' "$d/out.$c" | cut -c1-400 || true
done
rm -rf "$d"
