"""Concurrency control (DESIGN.md 2.4): a deterministic baton-passing scheduler for real threads, and a controller for
asyncio tasks on a real event loop whose transport calls complete one at a time in an order chosen by the explorer."""
import asyncio
import threading

from . import core, loader


class Killed(BaseException):
    pass


class Deadlock(Exception):
    pass


class SelfDeadlock(BaseException):
    """a non-reentrant lock was acquired again by the only running thread: the real code would block forever"""


class TRec:
    def __init__(self, name, fn):
        self.name = name
        self.fn = fn
        self.sem = threading.Semaphore(0)
        self.done = False
        self.blocked_on = None
        self.result = None
        self.exc = None
        self.thread = None
        self.held = []


class Scheduler:
    """Exactly one thread runs at a time; every switch is an explorer choice.  Switch points: lock acquire/release,
    transport calls, and the yield points injected before every statement of the I/O manager / packet store / _open."""

    def __init__(self, ctx, max_preempt=2, fair_first=True):
        self.ctx = ctx
        self.threads = []
        self.cur = None
        self.max_preempt = max_preempt
        self.preempts = 0
        self.killed = False
        self.main_sem = threading.Semaphore(0)
        self.error = None
        self.abort = None
        self.inversions = []
        self.foreign_releases = []
        self.switches = 0
        self.active = False

    def spawn(self, name, fn):
        r = TRec(name, fn)

        def body():
            r.sem.acquire()
            try:
                if self.killed:
                    raise Killed()
                r.result = fn()
            except Killed:
                pass
            except (core.PathAbort, core.Budget, core.Unsupported, core.HarnessError) as e:
                self.abort = e
                self.killed = True
            except BaseException as e:
                r.exc = e
            r.done = True
            self._finish(r)
        r.thread = threading.Thread(target=body, daemon=True)
        self.threads.append(r)
        r.thread.start()
        return r

    def runnable(self):
        return [r for r in self.threads if not r.done and (r.blocked_on is None or not r.blocked_on.held)]

    def _wake_all(self, except_for=None):
        for t in self.threads:
            if not t.done and t is not except_for:
                t.sem.release()

    def _finish(self, r):
        if self.killed:
            self._wake_all(r)
            if all(t.done for t in self.threads):
                self.main_sem.release()
            return
        cands = self.runnable()
        if not cands:
            if all(t.done for t in self.threads):
                self.main_sem.release()
                return
            self.error = Deadlock([t.name for t in self.threads if not t.done])
            self.killed = True
            self._wake_all(r)
            return
        try:
            nxt = cands[self.ctx.choose(len(cands), 'schedule')] if len(cands) > 1 else cands[0]
        except BaseException as e:
            self.abort = e
            self.killed = True
            self._wake_all(r)
            if all(t.done for t in self.threads):
                self.main_sem.release()
            return
        self.cur = nxt
        nxt.sem.release()

    def _switch(self, r, blocked=False):
        """called by the running thread r at a switch point"""
        if self.killed:
            raise Killed()
        cands = self.runnable()
        nxt = None
        try:
            if blocked:
                if not cands:
                    self.error = Deadlock([t.name + ' waits for ' + (t.blocked_on.name if t.blocked_on else '?') for t in self.threads if not t.done])
                    self.killed = True
                    self._wake_all(r)
                    raise Killed()
                nxt = cands[self.ctx.choose(len(cands), 'schedule')] if len(cands) > 1 else cands[0]
            else:
                others = [c for c in cands if c is not r]
                if not others or self.preempts >= self.max_preempt:
                    return
                k = self.ctx.choose(1 + len(others), 'preempt')
                if k == 0:
                    return
                self.preempts += 1
                nxt = others[k - 1]
        except Killed:
            raise
        except BaseException as e:
            self.abort = e
            self.killed = True
            self._wake_all(r)
            raise Killed()
        if nxt is r:
            return
        self.switches += 1
        self.cur = nxt
        nxt.sem.release()
        r.sem.acquire()
        if self.killed:
            raise Killed()

    def yield_point(self):
        if not self.active:
            return
        r = self.cur
        if r is None or threading.current_thread() is not r.thread:
            return
        self._switch(r)

    def run(self):
        self.active = True
        prev = loader.YIELD_HOOK[0]
        loader.YIELD_HOOK[0] = self.yield_point
        try:
            cands = self.runnable()
            first = cands[self.ctx.choose(len(cands), 'schedule')] if len(cands) > 1 else cands[0]
            self.cur = first
            first.sem.release()
            self.main_sem.acquire()
            for t in self.threads:
                t.thread.join(5)
        finally:
            loader.YIELD_HOOK[0] = prev
            self.active = False
        if self.abort is not None:
            raise self.abort
        return self.error


class SchedLock:
    """threading.Lock stand-in: blocks by handing the baton to another thread.  threading.Lock promises no fairness,
    so any waiter may win: the model is exact.  Without an active scheduler it is a plain non-reentrant lock."""
    sched = None
    clock = None
    counter = 0

    def __init__(self, name=None):
        SchedLock.counter += 1
        self.name = name or 'lock%d' % SchedLock.counter
        self.held = False
        self.owner = None

    def acquire(self, blocking=True, timeout=-1):
        s = SchedLock.sched
        if s is None or not s.active:
            if self.held:
                raise SelfDeadlock('lock %s acquired while already held by the same thread: the operation would block forever' % self.name)
            self.held = True
            return True
        s.yield_point()
        r = s.cur
        while self.held:
            if not blocking:
                return False
            if timeout is not None and timeout >= 0 and s.ctx.choose(2, 'lock wait times out?'):
                # the holder keeps the lock for longer than the waiter is willing to wait (e.g. it sits in a blocking read)
                if SchedLock.clock is not None:
                    SchedLock.clock.advance(timeout)
                return False
            r.blocked_on = self
            s._switch(r, blocked=True)
            r.blocked_on = None
        self.held = True
        self.owner = r
        # lock-order rule of the I/O manager: the transport lock is taken before the store lock
        if 'transport' in self.name and any('store' in l.name for l in r.held):
            s.inversions.append((r.name, [l.name for l in r.held], self.name))
        r.held.append(self)
        return True

    def release(self):
        if not self.held:
            raise RuntimeError('release unlocked lock')
        self.held = False
        s = SchedLock.sched
        if s is not None and s.active and self.owner is not None and self.owner is not s.cur:
            s.foreign_releases.append((self.name, self.owner.name, s.cur.name if s.cur else None))
        if self.owner is not None and self in self.owner.held:
            self.owner.held.remove(self)
        self.owner = None
        if s is not None and s.active:
            s.yield_point()

    def locked(self):
        return self.held

    def __enter__(self):
        self.acquire()
        return self

    def __exit__(self, *a):
        self.release()
        return False


# ------------------------------------------------------------------------------------------------
#  asyncio: real event loop, controlled transport futures
# ------------------------------------------------------------------------------------------------
class AsyncController:
    """Every transport call parks on a future; `run` drives the loop and, whenever all tasks are quiescent, completes one
    parked call chosen by the explorer.  Task switching and asyncio.Lock hand-over (FIFO) are asyncio's own."""

    def __init__(self, ctx, wire):
        self.ctx = ctx
        self.wire = wire
        self.parked = []      # (future, kind, args)
        self.completed = 0

    async def call(self, kind, *args):
        fut = asyncio.get_running_loop().create_future()
        self.parked.append((fut, kind, args))
        return await fut

    def _complete(self, item):
        fut, kind, args = item
        try:
            if kind == 'read':
                r = self.wire.read(*args)
            elif kind == 'write':
                r = self.wire.write(*args)
            elif kind == 'connect':
                r = self.wire.connect(*args)
            else:
                r = self.wire.close()
            fut.set_result(r)
        except (core.PathAbort, core.Budget, core.Unsupported, core.HarnessError):
            raise
        except Exception as e:
            fut.set_exception(e)
        self.completed += 1

    async def drive(self, tasks):
        loop = asyncio.get_running_loop()
        idle = 0
        while True:
            for _ in range(4):
                await asyncio.sleep(0)
            if all(t.done() for t in tasks):
                return None
            if not self.parked:
                idle += 1
                if idle > 50:
                    return Deadlock('async tasks neither finished nor waiting for the transport')
                continue
            idle = 0
            k = self.ctx.choose(len(self.parked), 'which transport call completes') if len(self.parked) > 1 else 0
            item = self.parked.pop(k)
            self._complete(item)


def make_async_transport(mods, ctrl):
    ABase = mods.base_transport_async.BaseTransportAsync

    class CtlTransportAsync(ABase):
        async def close(self):
            return await ctrl.call('close')

        async def connect(self, transport_timeout_s):
            return await ctrl.call('connect', transport_timeout_s)

        async def bulk_read(self, numbytes, transport_timeout_s):
            return await ctrl.call('read', numbytes, transport_timeout_s)

        async def bulk_write(self, data, transport_timeout_s):
            return await ctrl.call('write', data, transport_timeout_s)

    return CtlTransportAsync()


def run_async(ctx, coros_factory, ctrl):
    """run the coroutines returned by coros_factory() as tasks on a fresh event loop under the controller.
    returns (results list of (value, exception), deadlock-or-None)"""
    loop = asyncio.new_event_loop()
    out = {}

    async def main():
        tasks = [loop.create_task(c) for c in coros_factory()]
        dl = await ctrl.drive(tasks)
        res = []
        for t in tasks:
            if not t.done():
                t.cancel()
                res.append((None, Deadlock('task never finished')))
                continue
            e = t.exception()
            res.append((t.result() if e is None else None, e))
        out['res'] = res
        out['dl'] = dl

    try:
        loop.run_until_complete(main())
    finally:
        try:
            loop.run_until_complete(loop.shutdown_asyncgens())
        except Exception:
            pass
        loop.close()
    return out['res'], out['dl']
