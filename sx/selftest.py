"""Self-test of the machinery (DESIGN.md 2.7, 2.8, 7):  python -m sx.selftest [fast]

a. translator validation: the repository's unedited tests against the instrumented build
b. proxy semantics vs CPython (ints, byte strings, struct shim, UTF-8 model)
d. second solver: a sample of final VCs re-decided by the z3 4.8.12 and cvc5 1.0.x binaries
e. vacuity twins: every harness family reaches its assertions under a satisfiable path condition, natively reproducible
"""
import itertools
import json
import os
import random
import shutil
import struct
import subprocess
import sys
import tempfile
import time

import z3

from . import core, loader, run, utf8

ROOT = os.path.dirname(os.path.dirname(os.path.abspath(__file__)))
LAST_REPORT = None


def translator_validation():
    rep = tempfile.mktemp(suffix='.json')
    env = dict(os.environ, PYTHONPATH=ROOT, SX_TV_REPORT=rep, PYTHONDONTWRITEBYTECODE='1')
    p = subprocess.run([sys.executable, '-m', 'pytest', '-q', '-p', 'no:cacheprovider', '-p', 'sx.tvplugin', 'tests'], cwd=loader.REPO, env=env,
                       capture_output=True, text=True, timeout=1200)
    tail = p.stdout.strip().splitlines()[-1] if p.stdout.strip() else ''
    info = {}
    if os.path.exists(rep):
        info = json.load(open(rep))
        os.unlink(rep)
    for junk in ('NOWHERE',):
        pass
    ok = p.returncode == 0 and ' passed' in tail and 'failed' not in tail and info.get('instrumented_modules_in_place')
    return ok, {'summary': tail, 'functions_executed': len(info.get('functions_executed', [])), 'instrumented_modules_in_place': info.get('instrumented_modules_in_place')}


def _with_explorer(f):
    ex = core.Explorer()
    out = {}
    ex.explore(lambda e: out.setdefault('r', f(e)))
    return out['r']


def proxy_semantics(fast=False):
    """each proxy operation on a symbolic variable pinned to a concrete value must evaluate to CPython's result"""
    bad = []
    n = 0
    vals = [0, 1, 2, 3, 7, 8, 255, 256, 257, 65535, 65536, 2 ** 24 - 1, 2 ** 31 - 1, 2 ** 31, 2 ** 32 - 1, 2 ** 32, 2 ** 32 + 1, -1, -2, -255, -256, -2 ** 31, -2 ** 32]
    consts = [1, 2, 3, 8, 16, 255, 256, 1000, 65536, 2 ** 32]
    ops = [('add', lambda a, b: a + b), ('radd', lambda a, b: b + a), ('sub', lambda a, b: a - b), ('rsub', lambda a, b: b - a), ('mul', lambda a, b: a * b),
           ('floordiv', lambda a, b: a // b), ('mod', lambda a, b: a % b), ('lt', lambda a, b: a < b), ('le', lambda a, b: a <= b), ('eq', lambda a, b: a == b),
           ('ne', lambda a, b: a != b), ('gt', lambda a, b: a > b), ('ge', lambda a, b: a >= b), ('neg', lambda a, b: -a), ('abs', lambda a, b: abs(a))]
    maskops = [('and', lambda a, m: a & m), ('rshift', lambda a, k: a >> k), ('lshift', lambda a, k: a << k)]

    def run_one(name, f, a, b):
        def body(ex):
            x = ex.int('x')
            ex.add(x.t == a)
            r = f(x, b)
            m = ex.path_model()
            return core.to_concrete(r, m)
        return _with_explorer(body)

    for name, f in ops:
        for a in vals:
            for b in consts:
                n += 1
                want = f(a, b)
                got = run_one(name, f, a, b)
                if got != want:
                    bad.append((name, a, b, got, want))
    for a in vals:
        for mask in (0xFF, 0xFFFF, 0xFFFFFFFF):
            n += 1
            if run_one('and', maskops[0][1], a, mask) != (a & mask):
                bad.append(('and', a, mask))
        if a >= 0:
            for mask in (0xFFFFFFF0, 0x0F0F, 0x80000001, 5, 0x100):
                n += 3
                if run_one('and', lambda x, m: x & m, a, mask) != (a & mask):
                    bad.append(('and', a, mask))
                if run_one('or', lambda x, m: x | m, a, mask) != (a | mask):
                    bad.append(('or', a, mask))
                if run_one('xor', lambda x, m: x ^ m, a, mask) != (a ^ mask):
                    bad.append(('xor', a, mask))
        for k in (0, 1, 8, 16, 24):
            n += 2
            if run_one('rshift', maskops[1][1], a, k) != (a >> k):
                bad.append(('rshift', a, k))
            if run_one('lshift', maskops[2][1], a, k) != (a << k):
                bad.append(('lshift', a, k))
        if 0 <= a <= 0xFFFFFFFF:
            n += 1
            if run_one('xor', lambda x, m: x ^ m, a, 0xFFFFFFFF) != (a ^ 0xFFFFFFFF):
                bad.append(('xor', a))
    # reals: truncation, comparisons
    from fractions import Fraction
    for q in (Fraction(0), Fraction(1, 3), Fraction(-1, 3), Fraction(5, 2), Fraction(-5, 2), Fraction(7), Fraction(-7), Fraction(2500, 1)):
        def body(ex, q=q):
            r = ex.real('r')
            ex.add(r.t == core._frac_to_z3(q))
            return core.to_concrete((r * 1000).trunc(), ex.path_model())
        n += 1
        if _with_explorer(body) != int(q * 1000):
            bad.append(('trunc', q))
    # struct shim vs struct
    rng = random.Random(1)
    for fmt, cnt in ((b'<6I', 6), (b'<2I', 2), (b'<4I', 4), (b'<5I', 5), ('<3IiI', 5), ('<I', 1), ('<HhBbQq', 6)):
        for _ in range(20 if fast else 100):
            codes = core.struct_shim._parse(fmt)
            vs = []
            for c in codes:
                bits = 8 * core._SIZES[c]
                vs.append(rng.choice([0, 1, (1 << bits - 1) - 1]) if rng.random() < .3 else rng.randrange(-(1 << bits - 1) if c.islower() else 0, (1 << bits - 1) if c.islower() else (1 << bits)))
            want = struct.pack(fmt, *vs)

            def body(ex, vs=vs, fmt=fmt):
                xs = []
                for v in vs:
                    x = ex.int('v')
                    ex.add(x.t == v)
                    xs.append(x)
                packed = core.struct_shim.pack(fmt, *xs)
                back = core.struct_shim.unpack(fmt, packed)
                m = ex.path_model()
                return core.to_concrete(packed, m), core.to_concrete(list(back), m)
            n += 1
            p, b = _with_explorer(body)
            if p != want or list(b) != list(vs):
                bad.append(('struct', fmt, vs, p, want))
    # byte strings: slicing / concatenation / slice assignment / equality against bytes
    for _ in range(60 if fast else 300):
        ln = rng.randrange(0, 9)
        raw = bytes(rng.randrange(256) for _ in range(ln))
        i, j = sorted((rng.randrange(-2, ln + 3), rng.randrange(-2, ln + 3)))
        ins = bytes(rng.randrange(256) for _ in range(rng.randrange(0, 4)))

        def body(ex, raw=raw, i=i, j=j, ins=ins):
            sb = ex.bytes('b', len(raw))
            for k, v in enumerate(raw):
                ex.add(sb.ov[k] == v)
            ba = core.SymByteArray(sb.base, sb.ov)
            ba[i:j] = ins
            ba += ins
            outs = [sb[i:j], sb + ins, ins + sb, ba, sb[:i] + sb[i:], core.sum_shim(sb)]
            m = ex.path_model()
            eqs = [bool(sb == raw), bool(sb != raw), bool(sb == raw + b'x')]
            return [core.to_concrete(o, m) for o in outs], eqs
        n += 1
        outs, eqs = _with_explorer(body)
        wba = bytearray(raw)
        wba[i:j] = ins
        wba += ins
        want = [raw[i:j], raw + ins, ins + raw, bytes(wba), raw, sum(raw)]
        if outs != want or eqs != [True, False, False]:
            bad.append(('bytes', raw, i, j, ins, outs, want, eqs))
    # UTF-8 model vs CPython: all 1- and 2-byte strings, sampled 3/4-byte strings, all four error modes
    modes = ('strict', 'ignore', 'replace', 'backslashreplace')
    cases = [bytes([a]) for a in range(256)] + [bytes([a, b]) for a in range(256) for b in (range(0, 256, 7) if fast else range(256))]
    leads = [0x41, 0x7f, 0x80, 0xbf, 0xc1, 0xc2, 0xdf, 0xe0, 0xe1, 0xec, 0xed, 0xee, 0xef, 0xf0, 0xf1, 0xf3, 0xf4, 0xf5, 0xff]
    conts = [0x00, 0x41, 0x7f, 0x80, 0x8f, 0x90, 0x9f, 0xa0, 0xbf, 0xc0, 0xe2, 0xff]
    for a in leads:
        for b in conts:
            for c in conts:
                cases.append(bytes([a, b, c]))
                for d in (0x41, 0x80, 0xbf, 0xc2):
                    cases.append(bytes([a, b, c, d]))
    for _ in range(500 if fast else 5000):
        cases.append(bytes(rng.choice(leads + conts) for _ in range(rng.randrange(3, 7))))
    for raw in cases:
        for mode in modes:
            n += 1
            try:
                want = raw.decode('utf-8', mode)
            except UnicodeDecodeError:
                want = UnicodeDecodeError
            try:
                got = utf8.decode(list(raw), mode)
            except UnicodeDecodeError:
                got = UnicodeDecodeError
            if got != want:
                bad.append(('utf8', raw, mode, got, want))
                if len(bad) > 20:
                    break
    return not bad, {'cases': n, 'disagreements': [repr(b)[:200] for b in bad[:10]]}


def second_solver(fast=False):
    """dump a sample of final VCs and have the z3 4.8.12 and cvc5 binaries re-decide them (expected: unsat)"""
    samples = [('C01', {'h': 'service', 'impl': 'sync', 'api': 'shell', 'decode': False, 'lens': [2, 1]}),
               ('C02', {'h': 'pack', 'cmd': 'WRTE', 'n': 3, 'kind': 'bytes'}),
               ('C09', {'h': 'stat', 'impl': 'sync', 'cuts': 1}),
               ('C11', {'h': 'info', 't_none': False, 'T_none': False}),
               ('C14', {'h': 'seq', 'impl': 'sync', 'k': 2})]
    d = tempfile.mkdtemp(prefix='sxvc')
    files = []
    try:
        for pid, shape in samples:
            hmod = run.harness_module(pid)
            mods = run.get_mods(True)
            ex = core.Explorer(max_paths=50)
            ex.vc_dump_limit = 4 if fast else 12
            ex.explore(lambda e: hmod.HARNESSES[shape['h']](e, mods, shape))
            for i, (label, smt) in enumerate(ex.vc_dump):
                f = os.path.join(d, '%s_%d.smt2' % (pid, i))
                with open(f, 'w') as fh:
                    fh.write(smt if '(check-sat)' in smt else smt + '\n(check-sat)\n')
                files.append((f, label))
        res = {'vcs': len(files), 'z3_4.8.12': {}, 'cvc5': {}}
        ok = True
        for f, label in files:
            for name, cmd in (('z3_4.8.12', ['/usr/bin/z3', '-T:60', f]), ('cvc5', ['cvc5', '--tlimit=60000', f])):
                try:
                    p = subprocess.run(cmd, capture_output=True, text=True, timeout=90)
                    out = (p.stdout + p.stderr).strip()
                except Exception as e:
                    out = 'error: %s' % e
                verdict = 'unsat' if out.splitlines() and out.splitlines()[0].strip() == 'unsat' and '(error' not in out else out[:80]
                res[name][verdict] = res[name].get(verdict, 0) + 1
                if verdict != 'unsat':
                    ok = False
        return ok and len(files) > 0, res
    finally:
        shutil.rmtree(d, ignore_errors=True)


def vacuity(fast=False):
    """reachability twins: the end of every harness family is reached under a satisfiable path condition, and the model runs natively"""
    out = {}
    ok = True
    props = ['C01', 'C02', 'C03', 'C04', 'C05', 'C06', 'C07', 'C08', 'C09', 'C10', 'C11', 'C12', 'C13', 'C14', 'C15', 'C16', 'C18', 'C19', 'C20']
    for pid in props:
        hmod = run.harness_module(pid)
        seen = set()
        for shape in hmod.shapes('quick', 0):
            if shape['h'] in seen:
                continue
            seen.add(shape['h'])
            sh = dict(shape, vacuity=True, max_paths=40)
            sh.pop('xpart', None)
            r = run.work((pid, sh, 'quick', 0, 0))
            twin = [f for f in r['failures'] if f['label'] == run.VACUITY_LABEL]
            good = bool(twin) and all(f['reproduced'] for f in twin) and not r['error']
            out['%s/%s' % (pid, shape['h'])] = 'reached' if good else 'NOT REACHED: %s' % (r['error'] or [f['label'] for f in r['failures']][:2])
            ok = ok and good
    return ok, out


def main(argv):
    fast = 'fast' in argv
    t0 = time.time()
    report = {}
    status = 0
    for name, fn in (('translator_validation', translator_validation), ('proxy_semantics', lambda: proxy_semantics(fast)),
                     ('second_solver', lambda: second_solver(fast)), ('vacuity_twins', lambda: vacuity(fast))):
        if fast and name in ('vacuity_twins',) and 'all' not in argv:
            continue
        t = time.time()
        try:
            ok, info = fn()
        except Exception as e:
            import traceback
            ok, info = False, {'exception': traceback.format_exc()}
        report[name] = {'ok': ok, 'wall_s': round(time.time() - t, 1), 'info': info}
        print('selftest %-22s %s  (%.1fs) %s' % (name, 'ok' if ok else 'FAILED', time.time() - t, json.dumps(info)[:300] if not ok else ''))
        if not ok:
            status = 3
    report['wall_s'] = round(time.time() - t0, 1)
    global LAST_REPORT
    LAST_REPORT = report
    os.makedirs(os.path.join(ROOT, 'selftest'), exist_ok=True)
    if not fast:
        with open(os.path.join(ROOT, 'selftest', 'report.json'), 'w') as f:
            json.dump(report, f, indent=1)
    return status


if __name__ == '__main__':
    sys.exit(main(sys.argv[1:]))
