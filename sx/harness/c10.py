"""C10 - device-side sync failures surface as the documented exception with the reason (DESIGN.md section 3, C10)."""
from .. import core, sim, env
from ..core import as_sym, norm, sand, SymBytes
from .common import World, Std, cuts, split_at
from . import ops

PROPERTY = 'C10'
ASSUMPTIONS = [
    'reactive device simulator whose FAIL point is enumerated: right after RECV/SEND, after the j-th DATA record, after the j-th host WRTE, at DONE; reason bytes symbolic (0..4), cut anywhere',
    'the FAIL WRTE is ordered freely against later acknowledgements where adbd leaves it free (explorer choice); after a FAIL the device keeps acknowledging host WRTEs',
    'invalid-at-this-point records use ids from the ten known sync ids only (an id outside them raises KeyError today; the statement speaks of a sync status record, so unknown ids are outside the claim)',
    'virtual clock: a timeout error after the FAIL is already on the wire counts as substituting a timeout for a reported failure',
]
BOUNDS = {
    'quick': 'pull: FAIL at recv / after 1..2 DATA / instead of DONE, reason 0..3 bytes, <=1 cut; push: single- and multi-WRTE files (5 B, 5 KB, 9 KB at maxdata 4096), FAIL at send/data j/wrte j/done, all ack/FAIL orderings; known-but-invalid ids at each point; sync+async',
    'thorough': 'reason 0..4 bytes with <=2 cuts; push sizes up to 20 KB; maxdata 65536',
}
VALIDATE_EVERY = {'quick': 6, 'thorough': 2}
KNOWN_IDS = [b'DATA', b'DENT', b'DONE', b'FAIL', b'LIST', b'OKAY', b'QUIT', b'RECV', b'SEND', b'STAT']


def _mk(ctx, mods, shape, fail=None, bad_id=None):
    ncuts = shape.get('cuts', 0)

    def packetize(b, kind):
        if kind not in ('FAIL', 'RECV', 'BAD') or not ncuts or len(b) < 2:
            return [b]
        return split_at(b, cuts(ctx, len(b), min(ncuts, len(b) - 1), 'WRTE boundary'))

    reorder = (lambda s, c: ctx.choose(len(c), 'ack/FAIL order')) if shape.get('reorder') else None
    st = Std(ctx, maxdata=shape.get('maxdata', 4096), packetize=packetize, reorder=reorder, fail=fail, bad_id=bad_id)
    w = World(ctx, mods, st.dev, impl=shape['impl'], default_timeout=1)
    w.try_call('connect')
    return st, w


def _fail_was_sent(st):
    return any(tag in ('FAIL', 'BAD') or (cmd == b'WRTE' and tag == 'RECV') for (cmd, a0, a1, payload, stream, tag) in st.dev.emitted)


def _judge(ctx, mods, st, w, o, what, want_exc, reason, expect_fail_reached=True):
    exc = mods.exceptions
    ctx.observe('outcome', o.kind())
    if o.ok:
        ctx.fail('%s returned normally although the device reported a failure' % what)
        return
    e = o.exc
    if isinstance(e, (exc.TcpTimeoutException, exc.AdbTimeoutError)):
        sent = _fail_was_sent(st)
        if sent:
            dropped = what == 'push'
            ctx.fail('%s substituted a timeout for a failure the device had already reported%s' % (
                what, ' (the FAIL arrived while waiting for an OKAY and was discarded) [F5]' if dropped else ''), detail=repr(e))
        else:
            ctx.fail('%s timed out before the device could report' % what, detail=repr(e))
        return
    ctx.check(type(e) is getattr(exc, want_exc), '%s raises %s' % (what, want_exc), detail=repr(e))
    if type(e) is not getattr(exc, want_exc) or reason is None:
        return
    if want_exc == 'PushFailedError':
        ctx.observe('message', e.args[0] if e.args else None)
        ctx.check(len(e.args) == 1 and as_sym(reason) == e.args[0], "PushFailedError carries exactly the device's message")
    elif want_exc == 'AdbCommandFailureException':
        msg = e.args[0] if e.args else ''
        want = as_sym(reason).decode('utf-8', 'backslashreplace')
        ctx.observe('message', msg)
        ctx.check(('Command failed: ' + want) == msg if not isinstance(msg, str) or not isinstance(want, str) else msg == 'Command failed: ' + want,
                  "AdbCommandFailureException carries the device's message (backslashreplace-decoded)")


def h_pull_fail(ctx, mods, shape):
    reason = ctx.bytes('reason', shape['rlen']) if shape['rlen'] else b''
    if shape.get('reason') is not None:
        reason = shape['reason'].encode('latin-1')
    at = tuple(shape['at'])
    st, w = _mk(ctx, mods, shape, fail={'at': at, 'reason': reason})
    op = ops.Pull(recs=shape['recs'], cb=shape.get('cb'), dest=shape.get('dest', 'bytesio'))
    op.setup(ctx, st, w, 0)
    o = op.run(w)
    _judge(ctx, mods, st, w, o, 'pull', 'AdbCommandFailureException', reason)
    st.dev.decoder.finish()


def h_push_fail(ctx, mods, shape):
    reason = ctx.bytes('reason', shape['rlen']) if shape['rlen'] else b''
    if shape.get('reason') is not None:
        reason = shape['reason'].encode('latin-1')
    at = tuple(shape['at'])
    st, w = _mk(ctx, mods, shape, fail={'at': at, 'reason': reason})
    op = ops.Push(size=shape['size'], src=shape.get('src', 'path'), cb=shape.get('cb'))
    op.setup(ctx, st, w, 0)
    o = op.run(w)
    svc = st.sync_services[-1] if st.sync_services else None
    if svc is not None and not svc.failed:
        # the chosen FAIL point was never reached for this file size: the push must simply succeed
        ctx.observe('outcome', o.kind())
        ctx.check(o.ok, 'push succeeds when the device never rejects', detail=repr(o.exc) if not o.ok else None)
        return
    _judge(ctx, mods, st, w, o, 'push', 'PushFailedError', reason)
    st.dev.decoder.finish()


def _bad_record(ctx, ids, fmt_words):
    i = ctx.choose(len(ids), 'invalid record id')
    return sim.sync_rec(ids[i], *([0] * fmt_words))


def h_pull_badid(ctx, mods, shape):
    ids = [x for x in KNOWN_IDS if x not in (b'DATA', b'DONE', b'FAIL')]
    rec = _bad_record(ctx, ids, 1)
    st, w = _mk(ctx, mods, shape, bad_id={'at': tuple(shape['at']), 'record': rec})
    op = ops.Pull(recs=shape['recs'])
    op.setup(ctx, st, w, 0)
    o = op.run(w)
    _judge(ctx, mods, st, w, o, 'pull', 'InvalidResponseError', None)


def h_push_badid(ctx, mods, shape):
    ids = [x for x in KNOWN_IDS if x not in (b'OKAY', b'FAIL')]
    rec = _bad_record(ctx, ids, 1)
    st, w = _mk(ctx, mods, shape, bad_id={'at': tuple(shape['at']), 'record': rec})
    op = ops.Push(size=shape['size'])
    op.setup(ctx, st, w, 0)
    o = op.run(w)
    svc = st.sync_services[-1] if st.sync_services else None
    if svc is not None and not svc.failed:
        ctx.check(o.ok, 'push succeeds when the device never rejects')
        return
    _judge(ctx, mods, st, w, o, 'push', 'InvalidResponseError', None)


from .c06 import h_async, h_threads

HARNESSES = {'async': h_async, 'threads': h_threads, 'pull_fail': h_pull_fail, 'push_fail': h_push_fail, 'pull_badid': h_pull_badid, 'push_badid': h_push_badid}


def shapes(tier, seed):
    q = tier == 'quick'
    out = []
    rlens = (0, 1, 3) if q else (0, 1, 2, 4)
    for impl in ('sync', 'async'):
        for at, recs in ((['recv'], [2, 1]), (['recvdata', 1], [2, 1]), (['recvdata', 2], [2, 1]), (['recvdata', 1], [0])):
            for rlen in rlens:
                for nc in ((0, 1) if q else (0, 1, 2)):
                    out.append({'h': 'pull_fail', 'impl': impl, 'at': at, 'recs': recs, 'rlen': rlen, 'cuts': nc, 'abstract_decode': rlen > 1})
            for cb in ('rec', 'raise'):
                out.append({'h': 'pull_fail', 'impl': impl, 'at': at, 'recs': recs, 'rlen': 2, 'cuts': 0, 'cb': cb, 'abstract_decode': True})
            out.append({'h': 'pull_fail', 'impl': impl, 'at': at, 'recs': recs, 'rlen': 2, 'cuts': 0, 'dest': 'path', 'abstract_decode': True})
            out.append({'h': 'pull_badid', 'impl': impl, 'at': at, 'recs': recs, 'cuts': 0})
        sizes = (5, 5000, 9000) if q else (5, 5000, 9000, 20000)
        for size in sizes:
            ats = [['send'], ['data', 1], ['done'], ['wrte', 1]]
            if size > 2048:
                ats += [['data', 2], ['wrte', 2]]
            if size > 6000:
                ats += [['data', 4], ['wrte', 3]]
            for at in ats:
                for rlen in rlens:
                    out.append({'h': 'push_fail', 'impl': impl, 'at': at, 'size': size, 'rlen': rlen, 'cuts': 0, 'reorder': True})
                out.append({'h': 'push_fail', 'impl': impl, 'at': at, 'size': size, 'rlen': 3, 'cuts': 1, 'reorder': False})
                if size > 2048:
                    out.append({'h': 'push_fail', 'impl': impl, 'at': at, 'size': size, 'rlen': 2, 'cuts': 1, 'reorder': True, 'max_paths': 200000})
                if not q:
                    out.append({'h': 'push_fail', 'impl': impl, 'at': at, 'size': size, 'rlen': 3, 'cuts': 2, 'reorder': False})
                out.append({'h': 'push_badid', 'impl': impl, 'at': at, 'size': size, 'cuts': 0, 'reorder': True})
            for cb in ('rec', 'raise'):
                out.append({'h': 'push_fail', 'impl': impl, 'at': ['done'], 'size': size, 'rlen': 2, 'cuts': 0, 'cb': cb})
            out.append({'h': 'push_fail', 'impl': impl, 'at': ['done'], 'size': size, 'rlen': 2, 'cuts': 0, 'src': 'bytesio'})
        if not q:
            out.append({'h': 'push_fail', 'impl': impl, 'at': ['wrte', 2], 'size': 200000, 'rlen': 2, 'cuts': 0, 'reorder': True, 'maxdata': 65536})
    for impl in ('sync', 'async'):
        for reason in ('disk 100% full', '%s', '%d items', '100%%', 'caf\xe9 \xff'):
            out.append({'h': 'push_fail', 'impl': impl, 'at': ['done'], 'size': 5, 'rlen': 0, 'reason': reason, 'cuts': 0})
            out.append({'h': 'pull_fail', 'impl': impl, 'at': ['recvdata', 1], 'recs': [2, 1], 'rlen': 0, 'reason': reason, 'cuts': 0})
    # a rejected push / pull while another stream is being read concurrently: still the documented exception (K1 timeouts are C06's)
    ss = ['streaming_shell', {'lens': [1]}]
    out.append({'h': 'async', 'ops': [['push', {'size': 5000, 'expect_exc': 'PushFailedError'}], ss], 'fail': ['done'], 'ignore_k1': True, 'max_paths': 200000})
    out.append({'h': 'async', 'ops': [['pull', {'recs': [2, 1], 'expect_exc': 'AdbCommandFailureException'}], ss], 'fail': ['recvdata', 1], 'ignore_k1': True, 'max_paths': 200000})
    out.append({'h': 'threads', 'ops': [['push', {'size': 5000, 'expect_exc': 'PushFailedError'}], ss], 'fail': ['done'], 'preempt': 1, 'yields': False, 'ignore_k1': True, 'max_paths': 200000})
    return out
