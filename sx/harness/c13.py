"""C13 - nothing is sent unless connected; availability tracks the connection truthfully (DESIGN.md section 3, C13)."""
from .. import core, sim, env
from .common import World, Std
from .c05 import make_auth

PROPERTY = 'C13'
ASSUMPTIONS = [
    'histories are sequences of finite choices over the alphabet below, explored exhaustively up to the stated length; the device is healthy (reactive simulator) whenever a connection exists',
    'connect-fail kinds: no keys while the device demands authentication, a non-token AUTH challenge, a silent device (transport timeout), the transport refusing to connect',
    'local files live in the virtual file system; "no local file created" = no open() call on it during the operation',
]
GEN = ['gen_create', 'gen_step', 'op_unanswered']
OPS = ['shell', 'exec_out', 'root', 'reboot', 'streaming_shell', 'list', 'stat', 'pull_path', 'pull_bytesio', 'push_path', 'push_dir', 'push_bytesio',
       'list_empty', 'stat_empty', 'pull_empty', 'push_empty']
ALPHABET = ['connect_ok', 'fail_nokeys', 'fail_badauth', 'fail_timeout', 'fail_refused', 'close'] + OPS + GEN
SMALL = ['connect_ok', 'fail_nokeys', 'fail_refused', 'close', 'shell', 'pull_path', 'push_dir']
MEDIUM = ['connect_ok', 'fail_timeout', 'fail_refused', 'close', 'shell', 'pull_path', 'push_dir', 'gen_create', 'gen_step', 'op_unanswered']
BOUNDS = {
    'quick': 'all sequences of length <= 3 over the %d-letter alphabet %s, and of length 4 over the 10-letter alphabet %s; sync+async' % (len(ALPHABET), ALPHABET, MEDIUM),
    'thorough': 'additionally all sequences of length 4 and 5 over the 7-letter alphabet %s' % SMALL,
}
VALIDATE_EVERY = {'quick': 40, 'thorough': 40}


def _do(ctx, w, st, mods, letter, k):
    """execute one letter; returns (outcome, kind) with kind in connect/close/op/empty"""
    exc = mods.exceptions
    dev = st.dev
    if letter == 'connect_ok':
        dev.auth = None
        dev.silent = False
        w.refuse = False
        return w.try_call('connect'), 'connect_ok'
    if letter.startswith('fail_'):
        dev.auth = None
        w.refuse = False
        keys = None
        if letter == 'fail_nokeys':
            dev.auth, _ = make_auth(ctx, 0, ('never',))
        elif letter == 'fail_badauth':
            dev.auth, keys = make_auth(ctx, 1, ('never',), token_arg0=7)
        elif letter == 'fail_timeout':
            dev.silent = True
        else:
            w.refuse = True
        o = w.try_call('connect', rsa_keys=keys, transport_timeout_s=1, auth_timeout_s=1)
        dev.silent = False
        w.refuse = False
        dev.auth = None
        return o, 'connect_fail'
    if letter == 'close':
        return w.try_call('close'), 'close'
    if letter == 'gen_create':
        # calling streaming_shell() only creates the generator: nothing may happen yet
        w.pending_gen = w.drv.iterate(w.dev.streaming_shell('id', decode=False))
        from .common import Outcome
        return Outcome(value=None), 'noop'
    if letter == 'gen_step':
        g = getattr(w, 'pending_gen', None)
        from .common import Outcome
        if g is None:
            return Outcome(value=None), 'noop'
        w.pending_gen = None
        try:
            return Outcome(value=list(g)), 'op'
        except Exception as e:
            return Outcome(exc=e), 'op'
    if letter == 'op_unanswered':
        # the device does not answer the next OPEN: the operation fails, but the connection state must not change
        dev.silent = True
        o = w.try_call('shell', 'id', decode=False, read_timeout_s=1)
        dev.silent = False
        return o, 'unanswered'
    if letter in ('shell', 'exec_out'):
        return w.try_call(letter, 'id', decode=False), 'op'
    if letter in ('root', 'reboot'):
        return w.try_call(letter), 'op'
    if letter == 'streaming_shell':
        return w.stream('streaming_shell', 'id', decode=False), 'op'
    if letter == 'list':
        return w.try_call('list', '/d'), 'op'
    if letter == 'stat':
        return w.try_call('stat', '/f'), 'op'
    if letter == 'pull_path':
        return w.try_call('pull', '/f', '/cwd/pulled%d.bin' % k), 'op'
    if letter == 'pull_bytesio':
        return w.try_call('pull', '/f', env.SymBytesIO()), 'op'
    if letter == 'push_path':
        return w.try_call('push', '/cwd/src.bin', '/sdcard/x'), 'op'
    if letter == 'push_dir':
        return w.try_call('push', '/cwd/dir', '/sdcard/dd'), 'op'
    if letter == 'push_bytesio':
        return w.try_call('push', env.SymBytesIO(b'hello'), '/sdcard/y'), 'op'
    if letter == 'list_empty':
        return w.try_call('list', ''), 'empty'
    if letter == 'stat_empty':
        return w.try_call('stat', ''), 'empty'
    if letter == 'pull_empty':
        return w.try_call('pull', '', '/cwd/never.bin'), 'empty'
    if letter == 'push_empty':
        return w.try_call('push', '/cwd/src.bin', ''), 'empty'
    raise ValueError(letter)


def h_history(ctx, mods, shape):
    alphabet = shape['alphabet']
    st = Std(ctx, sym_rid=False)
    st.fs.stat[b'/f'] = (1, 2, 3)
    st.fs.listing[b'/d'] = [(1, 2, 3, b'n')]
    st.fs.recv[b'/f'] = [b'abc']
    st.dev.silent = False
    st.dev.gate = lambda dev, pkt, stream: not dev.silent
    state = {}

    def fault(kind, idx):
        if kind == 'c' and state['w'].refuse:
            return ConnectionRefusedError(111, 'Connection refused')
        return None

    w = World(ctx, mods, st.dev, impl=shape['impl'], fault=fault, default_timeout=1)
    w.refuse = False
    state['w'] = w
    w.vfs.add_file('/cwd/src.bin', b'0123456789')
    w.vfs.add_dir('/cwd/dir')
    w.vfs.add_file('/cwd/dir/a.bin', b'abc')
    w.vfs.cwd = '/cwd/dir' if shape.get('cwd_in_dir') else '/cwd'
    exc = mods.exceptions
    connected = False
    seq = list(shape.get('prefix', []))
    n = shape['length']
    ctx.check(w.dev.available is False, 'a fresh device is not available')
    k = 0
    while k < n:
        if k < len(seq):
            letter = seq[k]
        else:
            letter = alphabet[ctx.choose(len(alphabet), 'letter')]
            seq.append(letter)
        nwrites = w.wire.writes
        nopened = len(w.vfs.opened)
        tag = 'step %d (%s after %s): ' % (k + 1, letter, '>'.join(seq[:-1]) or 'start')
        o, kind = _do(ctx, w, st, mods, letter, k)
        sent = w.wire.writes - nwrites
        if kind == 'connect_ok':
            ctx.check(o.ok and o.value is True, tag + 'connect to a healthy device succeeds', detail=repr(o))
            connected = bool(o.ok)
        elif kind == 'connect_fail':
            ctx.check(not o.ok, tag + 'a failing connect raises', detail=repr(o))
            connected = False
        elif kind == 'close':
            ctx.check(o.ok, tag + 'close() completes', detail=repr(o))
            connected = False
        elif kind == 'noop':
            ctx.check(sent == 0, tag + 'creating a streaming_shell generator writes nothing', detail='%d writes' % sent)
        elif kind == 'unanswered':
            if connected:
                ctx.check(not o.ok, tag + 'an operation the device never answers fails', detail=repr(o))
                # the stale OPEN of this attempt must not confuse later operations: drop the half-open stream on the device side
                st.dev.streams = core.SymDict()
                for s_ in st.dev.all_streams:
                    s_.acks, s_.data = [], []
            else:
                ctx.check((not o.ok) and type(o.exc) is exc.AdbConnectionError, tag + 'an operation on a device that is not connected raises AdbConnectionError', detail=repr(o))
                ctx.check(sent == 0, tag + 'no byte is written to the transport while not connected', detail='%d writes' % sent)
        elif kind == 'empty':
            ctx.check((not o.ok) and type(o.exc) is exc.DevicePathInvalidError, tag + 'an empty device path raises DevicePathInvalidError', detail=repr(o))
            ctx.check(sent == 0, tag + 'no byte is written to the transport for an empty device path', detail='%d writes' % sent)
            ctx.check(len(w.vfs.opened) == nopened, tag + 'no local file is opened/created for an empty device path', detail=str(w.vfs.opened[nopened:]))
        else:
            if not connected:
                ctx.check((not o.ok) and type(o.exc) is exc.AdbConnectionError, tag + 'an operation on a device that is not connected raises AdbConnectionError', detail=repr(o))
                ctx.check(sent == 0, tag + 'no byte is written to the transport while not connected', detail='%d writes' % sent)
                ctx.check(len(w.vfs.opened) == nopened, tag + 'no local file is opened/created while not connected', detail=str(w.vfs.opened[nopened:]))
            else:
                ctx.check(o.ok, tag + 'the operation works while connected', detail=repr(o))
        ctx.check(w.dev.available is connected, tag + 'available is True exactly between a successful connect() and the next close()/connect()',
                  detail='available=%r, expected %r' % (w.dev.available, connected))
        k += 1
    ctx.observe('history', '>'.join(seq))


HARNESSES = {'history': h_history}


def shapes(tier, seed):
    q = tier == 'quick'
    out = []
    for impl in ('sync', 'async'):
        for a in ALPHABET:
            out.append({'h': 'history', 'impl': impl, 'alphabet': ALPHABET, 'prefix': [a], 'length': 3})
        for a in MEDIUM:
            out.append({'h': 'history', 'impl': impl, 'alphabet': MEDIUM, 'prefix': [a], 'length': 4})
        if not q:
            for a in SMALL:
                for b in SMALL:
                    out.append({'h': 'history', 'impl': impl, 'alphabet': SMALL, 'prefix': [a, b], 'length': 5})
    return out
