"""C12 - any transport failure leaves the device object recoverable (DESIGN.md section 3, C12)."""
from fractions import Fraction

from .. import core, sim, env, sched
from ..core import as_sym, sand
from .common import World, Std, Hang
from . import ops

PROPERTY = 'C12'
ASSUMPTIONS = [
    'scenario = connect, shell, stat, list, pull, push against the reactive simulator (sync replies split into 11-byte WRTEs so that sync records straddle packets); the index of the faulted transport call is enumerated over the whole call sequence, fault kinds: the transport timeout exception, ConnectionResetError, end-of-stream (reads return b"" from then on, costing virtual time; writes raise BrokenPipeError)',
    'after the fault: the rest of the first session is abandoned, close() is called, the transport is pointed at a fresh healthy simulator, connect() and the whole scenario are run again with fresh symbolic payloads (stale packets or buffers from the broken session would make the equality VCs sat)',
    'locks: threading.Lock is replaced by a non-reentrant stand-in that raises instead of blocking when re-acquired by the only running thread; an await that nothing completes is reported as a hang',
]
BOUNDS = {
    'quick': 'single faults at every transport call index of the scenario x 3 fault kinds x sync/async',
    'thorough': 'additionally every pair (f1 < f2) with f2 - f1 <= 6, and the store pre-loaded with packets of foreign streams before the fault',
}
VALIDATE_EVERY = {'quick': 3, 'thorough': 10}
SCENARIO = ['shell', 'stat', ['list', {'names': [2, 1]}], ['pull', {'recs': [3, 2]}], ['push', {'size': 5000}]]


def _packetize(b, kind):
    if kind in ('LIST', 'RECV', 'STAT'):
        return [b[i:i + 11] for i in range(0, len(b), 11)]
    return [b]


def _session(ctx, w, st, tag, stop_on_error):
    """run connect + scenario; returns list of (op, expected, outcome); stops at the first exception if asked"""
    out = []
    o = w.try_call('connect')
    out.append(('connect', None, o))
    if not o.ok:
        return out
    for k, spec in enumerate(SCENARIO):
        op = ops.make(spec)
        exp = op.setup(ctx, st, w, k + (10 if tag == 'second' else 0))
        o = op.run(w)
        out.append((op, exp, o))
        if not o.ok and stop_on_error:
            break
    return out


def ncalls(mods, impl):
    """number of transport calls of the fault-free scenario (a concrete dry run on the unmodified build)"""
    key = impl
    if key in _N:
        return _N[key]
    prev, core.CUR = core.CUR, None
    try:
        ctx = core.NativeCtx({}, [])
        nm = __import__('sx.run', fromlist=['get_mods']).get_mods(False)
        st = Std(ctx, sym_rid=False, packetize=_packetize)
        w = World(ctx, nm, st.dev, impl=impl, default_timeout=1)
        res = _session(ctx, w, st, 'first', True)
        assert all(o.ok for _, _, o in res), res
        _N[key] = w.wire.calls
    finally:
        core.CUR = prev
    return _N[key]


_N = {}


def h_fault(ctx, mods, shape):
    impl = shape['impl']
    kind = shape['kind']
    lo, hi = shape['range']
    f = lo + ctx.choose(hi - lo, 'fault index')
    f2 = None
    if shape.get('second_within'):
        f2 = f + 1 + ctx.choose(shape['second_within'], 'second fault distance')
    st = Std(ctx, sym_rid=True, packetize=_packetize)
    state = {'eof': False, 'armed': True}
    exc_t = mods.exceptions.TcpTimeoutException

    def fault(k, idx):
        if not state['armed']:
            return None
        hit = idx == f or (f2 is not None and idx == f2)
        if state['eof'] or hit:
            if k == 'w':
                # a failed write may leave a header without its payload on the wire: the framing of this session is gone by the fault itself
                st.dev.decoder.broken = True
            if kind == 'timeout':
                return exc_t('injected transport timeout') if hit else None
            if kind == 'reset':
                return ConnectionResetError(104, 'Connection reset by peer') if hit else None
            # end of stream: persists until the transport is reconnected
            state['eof'] = True
            if k == 'r':
                w.clock.advance(Fraction(1, 2))
                return 'eof'
            if k == 'w':
                return BrokenPipeError(32, 'Broken pipe')
            if k == 'c':
                state['eof'] = False
        return None

    w = World(ctx, mods, st.dev, impl=impl, default_timeout=1, fault=fault, budget=3000)
    if shape.get('preload'):
        pass
    res = _session(ctx, w, st, 'first', True)
    ctx.observe('first', [o.kind() for _, _, o in res])
    faulted = [x for x in res if not x[2].ok]
    # 1. the faulted operation either raised, or (if everything returned) every result is correct
    for op, exp, o in res:
        if op == 'connect':
            continue
        if o.ok:
            op.check(ctx, w, st, o, exp, 'first session, %s: ' % op.name)
        elif isinstance(o.exc, Hang):
            ctx.fail('first session, %s would block forever after the transport fault' % op.name, detail=str(o.exc))
    for op, exp, o in res:
        if op == 'connect' and not o.ok and isinstance(o.exc, Hang):
            ctx.fail('connect would block forever after the transport fault', detail=str(o.exc))
    # 2. no lock is left held
    io = w.dev._io_manager
    for name, l in (('transport lock', io._transport_lock), ('store lock', io._store_lock), ('local id lock', w.dev._local_id_lock)):
        ctx.check(not l.locked(), 'no internal lock is left held after the failed operation', detail=name)
    # 3. close() completes
    state['armed'] = False
    state['eof'] = False
    o = w.try_call('close')
    ctx.check(o.ok, 'close() completes after a transport failure', detail=repr(o.exc) if not o.ok else None)
    ctx.check(w.dev.available is False, 'the device is not available after close()')
    # 4. reconnect to a healthy device and replay the scenario with fresh payloads
    st2 = Std(ctx, sym_rid=True, packetize=_packetize)
    w.wire.device = st2.dev
    res2 = _session(ctx, w, st2, 'second', False)
    ctx.observe('second', [o.kind() for _, _, o in res2])
    for op, exp, o in res2:
        name = op if op == 'connect' else op.name
        if not o.ok:
            ctx.fail('after close()/connect() to a healthy device, %s raised %s' % (name, o.kind()), detail=repr(o.exc))
            continue
        if op != 'connect':
            op.check(ctx, w, st2, o, exp, 'after reconnect, %s: ' % name)
    st2.dev.decoder.finish()


HARNESSES = {'fault': h_fault}


def shapes(tier, seed):
    q = tier == 'quick'
    out = []
    for impl in ('sync', 'async'):
        try:
            n = ncalls(None, impl)
        except Exception:
            n = 150
        step = 8
        for kind in ('timeout', 'reset', 'eof'):
            for lo in range(0, n, step):
                out.append({'h': 'fault', 'impl': impl, 'kind': kind, 'range': [lo, min(n, lo + step)]})
                if not q:
                    out.append({'h': 'fault', 'impl': impl, 'kind': kind, 'range': [lo, min(n, lo + step)], 'second_within': 6})
    return out
