"""C12 - any transport failure leaves the device object recoverable (DESIGN.md section 3, C12)."""
from fractions import Fraction

from .. import core, sim, env, sched
from ..core import as_sym, sand
from .common import World, Std, Hang
from . import ops

PROPERTY = 'C12'
ASSUMPTIONS = [
    'scenario = connect, shell, stat, list, pull, push against the reactive simulator (sync replies split into 11-byte WRTEs so that sync records straddle packets); the index of the faulted transport call is enumerated over the whole call sequence, fault kinds: the transport timeout exception, ConnectionResetError, end-of-stream (reads return b"" from then on, costing virtual time; writes raise BrokenPipeError)',
    'after the fault: the rest of the first session is abandoned, close() is called, the transport is pointed at a fresh healthy simulator, connect() and the whole scenario are run again with fresh symbolic payloads (stale packets or buffers from the broken session would make the equality VCs sat)',
    'locks: threading.Lock is replaced by a non-reentrant stand-in that raises instead of blocking when re-acquired by the only running thread; an await that nothing completes is reported as a hang',
]
BOUNDS = {
    'quick': 'single faults at every transport call index of the scenario x 3 fault kinds x sync/async',
    'thorough': 'additionally every pair (f1 < f2) with f2 - f1 <= 6, and the store pre-loaded with packets of foreign streams before the fault',
}
VALIDATE_EVERY = {'quick': 3, 'thorough': 10}
SCENARIO = ['shell', 'stat', ['list', {'names': [2, 1]}], ['pull', {'recs': [3, 2]}], ['push', {'size': 5000}]]


def _packetize(b, kind):
    if kind in ('LIST', 'RECV', 'STAT'):
        return [b[i:i + 11] for i in range(0, len(b), 11)]
    return [b]


def _session(ctx, w, st, tag, stop_on_error, scenario=None, after_connect=None):
    """run connect + scenario; returns list of (op, expected, outcome); stops at the first exception if asked"""
    out = []
    o = w.try_call('connect')
    out.append(('connect', None, o))
    if not o.ok:
        return out
    if after_connect is not None:
        after_connect()
    for k, spec in enumerate(scenario or SCENARIO):
        op = ops.make(spec)
        exp = op.setup(ctx, st, w, k + (10 if tag == 'second' else 0))
        o = op.run(w)
        out.append((op, exp, o))
        if not o.ok and stop_on_error:
            break
    return out


def ncalls(mods, impl):
    """number of transport calls of the fault-free scenario (a concrete dry run on the unmodified build)"""
    key = impl
    if key in _N:
        return _N[key]
    prev, core.CUR = core.CUR, None
    try:
        ctx = core.NativeCtx({}, [])
        nm = __import__('sx.run', fromlist=['get_mods']).get_mods(False)
        st = Std(ctx, sym_rid=False, packetize=_packetize)
        w = World(ctx, nm, st.dev, impl=impl, default_timeout=1)
        res = _session(ctx, w, st, 'first', True)
        assert all(o.ok for _, _, o in res), res
        _N[key] = w.wire.calls
    finally:
        core.CUR = prev
    return _N[key]


_N = {}


def h_fault(ctx, mods, shape):
    impl = shape['impl']
    kind = shape['kind']
    lo, hi = shape['range']
    f = lo + ctx.choose(hi - lo, 'fault index')
    f2 = None
    if shape.get('second_within'):
        f2 = f + 1 + ctx.choose(shape['second_within'], 'second fault distance')
    st = Std(ctx, sym_rid=True, packetize=_packetize)
    state = {'eof': False, 'armed': True}
    exc_t = mods.exceptions.TcpTimeoutException

    def fault(k, idx):
        if not state['armed']:
            return None
        hit = idx == f or (f2 is not None and idx == f2)
        if state['eof'] or hit:
            if k == 'w':
                # a failed write may leave a header without its payload on the wire: the framing of this session is gone by the fault itself
                st.dev.decoder.broken = True
            if kind == 'timeout':
                return exc_t('injected transport timeout') if hit else None
            if kind == 'reset':
                return ConnectionResetError(104, 'Connection reset by peer') if hit else None
            # end of stream: persists until the transport is reconnected
            state['eof'] = True
            if k == 'r':
                w.clock.advance(Fraction(1, 2))
                return 'eof'
            if k == 'w':
                return BrokenPipeError(32, 'Broken pipe')
            if k == 'c':
                state['eof'] = False
        return None

    def frag(n, avail, idx):
        # the read just before the faulted call delivers a single byte: the fault then hits in the middle of a header/payload
        if shape.get('partial_before') and w.wire.calls - 1 == f - 1 and min(n, avail) > 1:
            return 1
        return min(n, avail)

    w = World(ctx, mods, st.dev, impl=impl, default_timeout=1, fault=fault, budget=3000, frag=frag if shape.get('partial_before') else None)
    if shape.get('preload'):
        pass
    scenario = shape.get('scenario')
    res = _session(ctx, w, st, 'first', True, scenario=scenario)
    ctx.observe('first', [o.kind() for _, _, o in res])
    faulted = [x for x in res if not x[2].ok]
    # 1. the faulted operation either raised, or (if everything returned) every result is correct
    for op, exp, o in res:
        if op == 'connect':
            continue
        if o.ok:
            op.check(ctx, w, st, o, exp, 'first session, %s: ' % op.name)
        elif isinstance(o.exc, Hang):
            ctx.fail('first session, %s would block forever after the transport fault' % op.name, detail=str(o.exc))
    for op, exp, o in res:
        if op == 'connect' and not o.ok and isinstance(o.exc, Hang):
            ctx.fail('connect would block forever after the transport fault', detail=str(o.exc))
    # 2. no lock is left held
    io = w.dev._io_manager
    for name, l in (('transport lock', io._transport_lock), ('store lock', io._store_lock), ('local id lock', w.dev._local_id_lock)):
        ctx.check(not l.locked(), 'no internal lock is left held after the failed operation', detail=name)
    # 3. close() completes
    state['armed'] = False
    state['eof'] = False
    if not shape.get('noclose'):
        o = w.try_call('close')
        ctx.check(o.ok, 'close() completes after a transport failure', detail=repr(o.exc) if not o.ok else None)
        ctx.check(w.dev.available is False, 'the device is not available after close()')
    # 4. reconnect to a healthy device and replay the scenario with fresh payloads
    st2 = Std(ctx, sym_rid=True, packetize=_packetize)
    w.wire.device = st2.dev
    after = None
    if shape.get('stale'):
        # packets of the broken session that were still in flight show up on the new connection right after its CNXN
        # (e.g. data left in USB endpoint buffers): they must not be mistaken for packets of the new session
        old = [(s_.rid, s_.lid) for s_ in st.dev.all_streams][-2:]

        def after():
            for (rid, lid) in old:
                st2.dev.inject(sim.frame(b'OKAY', rid, lid))
                st2.dev.inject(sim.frame(b'WRTE', rid, lid, ctx.bytes('stale', 2)))
                st2.dev.inject(sim.frame(b'CLSE', rid, lid))
    res2 = _session(ctx, w, st2, 'second', False, scenario=scenario, after_connect=after)
    ctx.observe('second', [o.kind() for _, _, o in res2])
    for op, exp, o in res2:
        name = op if op == 'connect' else op.name
        if not o.ok:
            ctx.fail('after close()/connect() to a healthy device, %s raised %s' % (name, o.kind()), detail=repr(o.exc))
            continue
        if op != 'connect':
            op.check(ctx, w, st2, o, exp, 'after reconnect, %s: ' % name)
    st2.dev.decoder.finish()


def h_reconnect_dirty(ctx, mods, shape):
    """connect() again on a live object (no close()) while the packet store still holds packets: the new session starts clean"""
    st = Std(ctx, sym_rid=True)
    w = World(ctx, mods, st.dev, impl=shape['impl'], default_timeout=1)
    o = w.try_call('connect')
    next_lid = 2
    # while a shell command runs, the device also sends packets for other ids: a stray OKAY for the id the NEXT stream will
    # get, and a WRTE for a stream that does not exist; both are parked in the packet store
    orig_emit = st.dev._emit
    state = {'n': 0}

    def emit(cmd, a0, a1, payload, stream, tag_):
        orig_emit(cmd, a0, a1, payload, stream, tag_)
        state['n'] += 1
        if state['n'] == 2 and shape.get('stray', True):
            st.dev.inject(sim.frame(b'OKAY', ctx.int('stray_rid', 1, 2 ** 32 - 1), next_lid))
            st.dev.inject(sim.frame(b'WRTE', ctx.int('stray_rid', 1, 2 ** 32 - 1), next_lid + 5, ctx.bytes('junk', 2)))
    st.dev._emit = emit
    op1 = ops.make('shell')
    e1 = op1.setup(ctx, st, w, 0)
    o1 = op1.run(w)
    ctx.observe('first', o1.kind())
    if not o1.ok:
        ctx.fail('shell raised %s' % o1.kind(), detail=repr(o1.exc))
        return
    st.dev._emit = orig_emit
    if shape.get('close'):
        w.try_call('close')
    st2 = Std(ctx, sym_rid=True)
    w.wire.device = st2.dev
    o = w.try_call('connect')
    ctx.check(o.ok, 'connect() on a live object succeeds', detail=repr(o))
    for k, spec in enumerate(['shell', 'stat', 'shell']):
        op = ops.make(spec)
        exp = op.setup(ctx, st2, w, 10 + k)
        r = op.run(w)
        ctx.observe('second %d' % k, r.kind())
        if not r.ok:
            ctx.fail('after connect() on a live object, %s raised %s (state of the previous session leaked)' % (op.name, r.kind()), detail=repr(r.exc))
            return
        op.check(ctx, w, st2, r, exp, 'after reconnect, %s: ' % op.name)


HARNESSES = {'fault': h_fault, 'reconnect_dirty': h_reconnect_dirty}


def shapes(tier, seed):
    q = tier == 'quick'
    out = []
    for impl in ('sync', 'async'):
        try:
            n = ncalls(None, impl)
        except Exception:
            n = 150
        step = 8
        for kind in ('timeout', 'reset', 'eof'):
            for lo in range(0, n, step):
                out.append({'h': 'fault', 'impl': impl, 'kind': kind, 'range': [lo, min(n, lo + step)]})
                if not q:
                    out.append({'h': 'fault', 'impl': impl, 'kind': kind, 'range': [lo, min(n, lo + step)], 'second_within': 6})
            # the fault hits in the middle of a header / payload (the previous read returned a single byte); with and without close()
            for lo in range(2, n, 6):
                out.append({'h': 'fault', 'impl': impl, 'kind': kind, 'range': [lo, min(n, lo + 2)], 'partial_before': True, 'noclose': (lo // 6) % 2 == 0})
            # stale packets of the broken session arrive on the new connection
            for lo in range(8, n, 24):
                out.append({'h': 'fault', 'impl': impl, 'kind': kind, 'range': [lo, min(n, lo + 4)], 'stale': True})
        # a shell command whose 24-byte output could itself be read as a packet header: a fault must never turn it into a result
        for kind in ('timeout', 'reset'):
            out.append({'h': 'fault', 'impl': impl, 'kind': kind, 'range': [4, 14], 'scenario': [['shell', {'lens': [24]}]]})
        for close in (False, True):
            out.append({'h': 'reconnect_dirty', 'impl': impl, 'close': close})
    return out
