"""C05 - CNXN/AUTH handshake follows the ADB authentication state machine (DESIGN.md section 3, C05)."""
import itertools

from .. import core, sim
from ..core import SymBytes, SymInt, as_sym, norm, sand, sor
from .common import World, Std

PROPERTY = 'C05'
ASSUMPTIONS = [
    'device model: AuthModel in sx/sim.py; 20-byte tokens are fresh symbolic byte strings per challenge; maxdata in the device CNXN symbolic over [0, 2^32)',
    'signers are stubs (Sign returns b"SIG<k>:"+argument and records the argument; GetPublicKey returns bytes or str); RSA itself is outside (C17)',
    'stray packets before an answer are OKAY/WRTE/CLSE/OPEN/SYNC with a symbolic command word among those five and symbolic ids',
    'timeouts: transport/auth timeouts are symbolic positive reals; the clock is virtual and only advances when a read finds nothing pending',
]
BOUNDS = {
    'quick': 'keys 0..3; accepted in {no auth, key k, public key, never, non-token challenge at step j}; strays 0..1 per answer; callback none/recording/raising; second connect() after each outcome kind (fixed cross-section); sync+async',
    'thorough': 'keys 0..4; strays 0..2; all pairs (first outcome, second outcome) for the repeated connect()',
}
BANNER = b'myhost'


class StubSigner:
    generation = 0      # bumped for every make_auth(): keys of different connect() attempts have different public keys

    def __init__(self, idx, log, str_pubkey=False, gen=0):
        self.idx = idx
        self.log = log
        self.str_pubkey = str_pubkey
        self.gen = gen

    def Sign(self, data):
        self.log.append(('sign', self.idx, data))
        return b'SIG%d:' % self.idx + data

    def GetPublicKey(self):
        self.log.append(('pubkey', self.idx))
        if self.str_pubkey == 'nonascii':
            return 'PUBKEY%d.%d j\u00fcrgen@b\u00fcro' % (self.gen, self.idx)
        if self.str_pubkey:
            return 'PUBKEY%d.%d' % (self.gen, self.idx)
        return b'PUBKEY%d.%d' % (self.gen, self.idx)


def _sig_key_of(payload):
    b = bytes(as_sym(payload).base[:8])
    if not b.startswith(b'SIG') or b':' not in b:
        return -1
    try:
        return int(b[3:b.index(b':')])
    except ValueError:
        return -1


def make_auth(ctx, nkeys, accept, maxdata=4096, token_arg0=sim.AUTH_TOKEN, str_pubkey=False):
    log = []
    auth = sim.AuthModel(accept, tokens=lambda i: ctx.bytes('token', 20), sig_key_of=_sig_key_of, token_arg0=token_arg0, cnxn_maxdata=maxdata)
    auth.sign_log = log
    gen = getattr(ctx, '_c05_gen', 0)
    try:
        ctx._c05_gen = gen + 1
    except Exception:
        pass
    keys = [StubSigner(i, log, str_pubkey, gen) for i in range(nkeys)]
    auth.gen = gen
    return auth, keys


def _expected(cfg):
    """(outcome kind, number of Sign calls, pubkey offered?) from the configuration"""
    nkeys, acc = cfg['nkeys'], tuple(cfg['accept'])
    bad = cfg.get('bad_at')   # challenge index whose arg0 is not AUTH_TOKEN
    if acc[0] == 'none':
        return 'ok', 0, False
    if nkeys == 0:
        return 'DeviceAuthError', 0, False
    nsign_possible = nkeys if acc[0] != 'key' else acc[1] + 1
    if bad is not None and bad < nsign_possible:
        return 'InvalidResponseError', bad, False
    if acc[0] == 'key':
        return 'ok', acc[1] + 1, False
    if acc[0] == 'pubkey':
        return 'ok', nkeys, True
    return 'timeout', nkeys, True      # 'never' and 'rechallenge': no CNXN ever arrives


def _one_connect(ctx, w, st_holder, cfg, mods, tag):
    """configure the device for this attempt, call connect(), check everything"""
    dev = st_holder['dev']
    nkeys = cfg['nkeys']
    maxdata = ctx.int('maxdata', 0, 2 ** 32 - 1)
    bad = cfg.get('bad_at')
    bad_arg0 = None
    if bad is not None:
        bad_arg0 = ctx.int('bad_arg0', 0, 2 ** 32 - 1)
        ctx.assume(bad_arg0 != sim.AUTH_TOKEN)
    auth, keys = make_auth(ctx, nkeys, tuple(cfg['accept']), maxdata=maxdata,
                           token_arg0=(lambda i: bad_arg0 if i == bad else sim.AUTH_TOKEN), str_pubkey=cfg.get('str_pubkey', False))
    dev.auth = auth
    # stray packets before each device answer
    nstray = cfg.get('strays', 0)
    if nstray:
        orig_emit = dev._emit
        allowed = [sim.A_OKAY, sim.A_WRTE, sim.A_CLSE, sim.A_OPEN, sim.A_SYNC]
        answers = {'n': 0}

        def emit(cmd, a0, a1, payload, stream, tag_):
            if cmd in (b'AUTH', b'CNXN'):
                if answers['n'] == cfg.get('stray_at', 0):
                    for _ in range(nstray):
                        wv = allowed[ctx.choose(len(allowed), 'stray command')]
                        dev.inject(sim.frame(None, ctx.int('sa0', 0, 2 ** 32 - 1), ctx.int('sa1', 0, 2 ** 32 - 1), ctx.bytes('sp', 1), cmdword=wv))
                answers['n'] += 1
            orig_emit(cmd, a0, a1, payload, stream, tag_)
        dev._emit = emit
    cb_log = []
    cb = None
    if cfg.get('callback') == 'rec':
        cb = lambda d: cb_log.append(('cb', len([e for e in auth.sign_log if e[0] == 'sign']), len(auth.pubkeys)))
    elif cfg.get('callback') == 'raise':
        def cb(d):
            cb_log.append(('cb', len([e for e in auth.sign_log if e[0] == 'sign']), len(auth.pubkeys)))
            raise RuntimeError('callback failed')
    auth_t = ctx.real('auth_t', 1, 1000)
    tr_t = ctx.real('tr_t', 1, 1000)
    npk0 = len(dev.decoder.packets)
    t0 = w.clock.now
    nreads0 = len(w.wire.read_timeouts)
    o = w.try_call('connect', rsa_keys=keys if nkeys else None, transport_timeout_s=tr_t, auth_timeout_s=auth_t, auth_callback=cb)
    if nstray:
        dev._emit = orig_emit
    ctx.observe(tag + 'outcome', o.kind())
    ctx.observe(tag + 'available', w.dev.available)
    pk = dev.decoder.packets[npk0:]
    exp_kind, exp_signs, exp_pub = _expected(cfg)
    cb_raises = cfg.get('callback') == 'raise' and exp_pub
    # --- first packet
    if not pk:
        ctx.fail(tag + 'connect() sends CNXN first', detail='nothing sent')
        return o
    p0 = pk[0]
    ctx.check(p0.cmd == b'CNXN', tag + 'first packet is CNXN', detail=repr(p0))
    ctx.check(sand(p0.a0 == 0x01000000, p0.a1 == 1024 * 1024), tag + 'CNXN carries version 0x01000000 and host maxdata 1 MiB')
    ctx.check(p0.payload == b'host::' + BANNER + b'\0', tag + "CNXN payload is 'host::<banner>\\0'", detail=repr(norm(p0.payload)))
    # --- signatures: latest token, once per key, in order, stop at the first accepted
    signs = [e for e in auth.sign_log if e[0] == 'sign']
    ctx.check(len(signs) == exp_signs, tag + 'number of Sign calls (once per key, stop at first accepted)', detail='%d, expected %d' % (len(signs), exp_signs))
    ctx.check([e[1] for e in signs] == list(range(len(signs))), tag + 'keys are used in order, at most once each', detail=str([e[1] for e in signs]))
    for i, e in enumerate(signs):
        if i < len(auth.issued):
            ctx.check(as_sym(e[2]) == auth.issued[i], tag + 'Sign() is given the most recent token (challenge %d)' % i)
    sig_pk = [p for p in pk if p.cmd == b'AUTH' and not isinstance(p.a0, SymInt) and p.a0 == sim.AUTH_SIGNATURE]
    ctx.check(len(sig_pk) == len(signs), tag + 'one AUTH(SIGNATURE) packet per Sign call')
    for p, e in zip(sig_pk, signs):
        ctx.check(sand(p.a1 == 0, p.payload == (b'SIG%d:' % e[1]) + as_sym(e[2])), tag + 'AUTH(SIGNATURE) carries exactly the signature')
    # --- public key fallback
    pub_pk = [p for p in pk if p.cmd == b'AUTH' and not isinstance(p.a0, SymInt) and p.a0 == sim.AUTH_RSAPUBLICKEY]
    if exp_pub and not cb_raises:
        ctx.check(len(pub_pk) == 1, tag + 'public key offered exactly once after all keys were rejected', detail=str(len(pub_pk)))
        if pub_pk:
            want_pk = (b'PUBKEY%d.0' % auth.gen) + (' j\u00fcrgen@b\u00fcro'.encode('utf-8') if cfg.get('str_pubkey') == 'nonascii' else b'') + b'\0'
            ctx.check(pub_pk[0].payload == want_pk, tag + "public key packet is the first key's public key (of THIS connect call), NUL-terminated", detail=repr(norm(pub_pk[0].payload)))
            ctx.check(pub_pk[0].index > max([p.index for p in sig_pk] or [-1]), tag + 'public key only after every signature attempt')
    else:
        ctx.check(len(pub_pk) == 0, tag + 'no public key offered unless all keys were rejected (and the callback returned)', detail=str(len(pub_pk)))
    if cfg.get('callback') in ('rec', 'raise'):
        if exp_pub:
            ctx.check(len(cb_log) == 1, tag + 'auth callback invoked exactly once', detail=str(cb_log))
            if cb_log:
                ctx.check(cb_log[0] == ('cb', exp_signs, 0), tag + 'auth callback invoked after all signatures and before the public key is sent', detail=str(cb_log))
        else:
            ctx.check(len(cb_log) == 0, tag + 'auth callback not invoked unless the public key is about to be offered', detail=str(cb_log))
    # --- outcome
    exc = mods.exceptions
    if cb_raises:
        ctx.check((not o.ok) and isinstance(o.exc, RuntimeError), tag + 'a raising callback propagates', detail=o.kind())
        ctx.check(w.dev.available is False, tag + 'connect() raised => device unavailable')
    elif exp_kind == 'ok':
        ctx.check(o.ok and o.value is True, tag + 'connect() returns True when the device finally answers CNXN', detail=o.kind())
        if o.ok:
            ctx.check(w.dev.available is True, tag + 'available after a successful connect')
            ctx.check(w.dev._maxdata == maxdata, tag + "maxdata adopted from the device's CNXN")
            mcs = w.dev.max_chunk_size
            half = maxdata // 2
            want = core.ite(half >= 65536, 65536, core.ite(half == 0, 2048, half)) if isinstance(maxdata, SymInt) else (min(65536, half) or 2048)
            ctx.check(mcs == want, tag + 'max_chunk_size follows the adopted maxdata')
    elif exp_kind == 'timeout':
        ctx.check((not o.ok) and isinstance(o.exc, (exc.TcpTimeoutException, exc.AdbTimeoutError)), tag + 'device never answers => timeout error', detail=o.kind())
        ctx.check(w.dev.available is False, tag + 'connect() raised => device unavailable')
        rt = w.wire.read_timeouts[nreads0:]
        if rt:
            ctx.check(rt[-1] == auth_t, tag + 'the wait after offering the public key uses auth_timeout_s')
        ctx.check(w.clock.now - t0 >= auth_t, tag + 'waited (virtual time) at least auth_timeout_s for the user to accept the key')
    else:
        want_exc = getattr(exc, exp_kind)
        ctx.check((not o.ok) and type(o.exc) is want_exc, tag + 'connect() raises %s' % exp_kind, detail=o.kind())
        ctx.check(w.dev.available is False, tag + 'connect() raised => device unavailable')
    if not o.ok:
        ctx.check(w.dev.available is False, tag + 'whenever connect() raises the device is left unavailable')
    return o


def h_connect(ctx, mods, shape):
    try:
        ctx._c05_gen = 0       # key generations are counted per scenario run
    except Exception:
        pass
    st = Std(ctx, sym_rid=False)
    holder = {'dev': st.dev}
    w = World(ctx, mods, st.dev, impl=shape['impl'], banner=BANNER)
    for i, cfg in enumerate(shape['cfgs']):
        o = _one_connect(ctx, w, holder, cfg, mods, 'connect#%d: ' % (i + 1))
        if o.ok and cfg.get('use'):
            # the connection is usable: a shell command works and uses the adopted ids
            st.dev.auth = None
            r = w.try_call('shell', 'id', decode=False)
            ctx.check(r.ok and r.value == b'ok', 'shell works after connect#%d' % (i + 1), detail=repr(r))
    st.dev.decoder.finish()


HARNESSES = {'connect': h_connect}


def _cfgs(maxkeys, strays_opts, callbacks):
    out = []
    for nkeys in range(0, maxkeys + 1):
        accepts = [('none',), ('never',), ('pubkey',), ('rechallenge',)] + [('key', k) for k in range(nkeys)]
        for acc in accepts:
            for cb in callbacks:
                if cb is not None and acc[0] not in ('pubkey', 'never', 'key', 'rechallenge'):
                    continue
                if cb is not None and acc[0] == 'key' and acc[1] != nkeys - 1:
                    continue
                out.append({'nkeys': nkeys, 'accept': list(acc), 'strays': 0, 'callback': cb})
            # stray packets before the j-th device answer
            nanswers = 1 if acc[0] == 'none' else (1 + (acc[1] + 1 if acc[0] == 'key' else nkeys) + (1 if acc[0] in ('pubkey', 'rechallenge') and nkeys else 0))
            if nkeys == 0 and acc[0] != 'none':
                nanswers = 1
            for strays in strays_opts:
                if not strays:
                    continue
                for j in range(nanswers):
                    out.append({'nkeys': nkeys, 'accept': list(acc), 'strays': strays, 'stray_at': j, 'callback': 'rec'})
        # a challenge that is not a token at step j
        for j in range(0, nkeys + 1):
            out.append({'nkeys': nkeys, 'accept': ['never'], 'bad_at': j, 'strays': 0, 'callback': 'rec'})
    return out


def shapes(tier, seed):
    q = tier == 'quick'
    out = []
    cfgs = _cfgs(3 if q else 4, (0, 1) if q else (0, 1, 2), (None, 'rec', 'raise'))
    for impl in ('sync', 'async'):
        for c in cfgs:
            out.append({'h': 'connect', 'impl': impl, 'cfgs': [c]})
        out.append({'h': 'connect', 'impl': impl, 'cfgs': [{'nkeys': 1, 'accept': ['pubkey'], 'strays': 0, 'callback': None, 'str_pubkey': True}]})
        out.append({'h': 'connect', 'impl': impl, 'cfgs': [{'nkeys': 2, 'accept': ['pubkey'], 'strays': 0, 'callback': None, 'str_pubkey': 'nonascii', 'use': True}]})
        # repeated connect() on the same object
        kinds = [{'nkeys': 0, 'accept': ['none'], 'use': True}, {'nkeys': 0, 'accept': ['never']}, {'nkeys': 2, 'accept': ['key', 1], 'use': True},
                 {'nkeys': 2, 'accept': ['never']}, {'nkeys': 1, 'accept': ['never'], 'bad_at': 0}, {'nkeys': 1, 'accept': ['pubkey'], 'callback': 'raise'},
                 {'nkeys': 2, 'accept': ['pubkey'], 'callback': 'rec', 'use': True}]
        pairs = list(itertools.product(range(len(kinds)), repeat=2))
        if q:
            pairs = [(a, b) for a, b in pairs if b in (0, 2, 3) or a == b]
        for a, b in pairs:
            out.append({'h': 'connect', 'impl': impl, 'cfgs': [dict(kinds[a], strays=0), dict(kinds[b], strays=0)]})
    return out
