"""C07 - push delivers the exact file bytes, within protocol size limits (DESIGN.md section 3, C07)."""
from .. import core, sim, env
from ..core import SymBytes, SymInt, as_sym, norm, sand, bjoin
from .common import World, Std, sym_content
from . import ops

PROPERTY = 'C07'
ASSUMPTIONS = [
    'reactive device simulator with a sync service that reassembles SEND/DATA/DONE into a device file system (independent parser)',
    'file content = position-dependent concrete pattern (period 251) with symbolic bytes at both ends and at every chunk boundary +-1 (small files fully symbolic): any dropped/duplicated/shifted region is visible on the concrete bytes, byte values are covered symbolically',
    'mtime symbolic over [1, 2^32); mtime=0 with a symbolic virtual clock; st_mode concrete (it is rendered in decimal inside the SEND header)',
    'virtual file system behind open/os.path.isdir/os.listdir/os.fstat/aiofiles.open with a virtual cwd different from the pushed directory',
    'H07a (inductive size step): _FileSyncTransactionInfo with symbolic send_idx and maxdata, data of symbolic length (content-free LenBytes); one call of the real _filesync_send',
]
BOUNDS = {
    'quick': 'maxdata 4096 and 65536; sizes {0,1,2,5, chunk-1, chunk, chunk+1, 2*chunk+3, maxdata-9..maxdata+1 (selected), 3.5*chunk}; sources path/BytesIO/directory(0..3 files); callbacks none/recording/raising; device paths of length 1/40/1024/non-ASCII; sync+async. H07a: all send_idx in [0, maxdata), all maxdata in [4096, 2^20], all data lengths <= max_chunk_size',
    'thorough': 'maxdata additionally 8192, 2^18, 2^20; every size in maxdata-9..maxdata+1; 4 MiB file at 1 MiB',
}
VALIDATE_EVERY = {'quick': 4, 'thorough': 1}


def _content(ctx, size, chunk):
    pos = {0, 1, size - 1, size - 2}
    k = chunk
    while k < size + 2 and len(pos) < 40:
        pos |= {k - 1, k, k + 1}
        k += chunk
    if size <= 16:
        pos = set(range(size))
    return sym_content(ctx, 'file', size, pos)


def _mkworld(ctx, mods, shape, withhold=False, sym_rid=True, clock=None):
    st = Std(ctx, maxdata=shape['maxdata'], sym_rid=sym_rid)
    if withhold:
        orig = sim.SyncService.reply

        def services_hook(svc):
            svc.reply = lambda s, data, kind: None if kind == 'OKAY' else orig(svc, s, data, kind)
        st.hook = services_hook
    w = World(ctx, mods, st.dev, impl=shape['impl'], clock=clock, default_timeout=1)
    return st, w


def _check_sizes(ctx, st, maxdata):
    for p in st.dev.decoder.packets:
        if p.cmd == b'WRTE':
            ctx.check(len(p.payload) <= maxdata, "no WRTE payload exceeds the device's maxdata", detail='%d > %d' % (len(p.payload), maxdata))


def h_push(ctx, mods, shape):
    maxdata = shape['maxdata']
    chunk = min(65536, maxdata // 2) or 2048
    size = shape['size']
    st, w = _mkworld(ctx, mods, shape)
    if shape.get('withhold'):
        _withhold(st)
    o = w.try_call('connect')
    if not o.ok:
        ctx.fail('connect failed', detail=repr(o.exc))
        return
    kw = {'size': size, 'src': shape.get('src', 'path'), 'cb': shape.get('cb'), 'st_mode': shape.get('st_mode', 0o100770)}
    if shape.get('device_path'):
        kw['device_path'] = shape['device_path']
    op = ops.Push(**kw)
    op.kw['sympos'] = None
    exp = op.setup(ctx, st, w, 0)
    # replace the default content by one with symbolic bytes around the chunk boundaries
    op.content = _content(ctx, size, chunk)
    if op.kind == 'path':
        w.vfs.add_file(op.src, op.content)
    else:
        op.src = env.SymBytesIO(op.content)
    if shape.get('mtime0'):
        op.mtime = 0
        w.clock.now = ctx.real('now', 0, 2 ** 32 - 2)
    o = op.run(w)
    ctx.observe('outcome', o.kind())
    if shape.get('withhold'):
        ctx.check(not o.ok, "push does not return normally unless the device's sync OKAY arrived", detail=o.kind())
        return
    if not o.ok:
        ctx.fail('push raised %s' % o.kind(), detail=repr(o.exc))
        return
    if shape.get('mtime0'):
        now = w.clock.now
        want = now.trunc() if isinstance(now, core.SymReal) else int(now)
        op.mtime = want
    op.check(ctx, w, st, o, exp, '')
    _check_sizes(ctx, st, maxdata)
    if op.cb_kind:
        ctx.check(sum(c[1] for c in op.cb_log) == size, 'progress callback byte counts sum to the file size', detail=str(op.cb_log[:4]))
        ctx.check(all(c[2] == size for c in op.cb_log), 'progress callback is told the total size', detail=str(op.cb_log[:2]))
    st.dev.decoder.finish()
    ctx.observe('nwrte', len([p for p in st.dev.decoder.packets if p.cmd == b'WRTE']))


def _withhold(st):
    """the device never sends the final sync OKAY"""
    orig_services = st.dev.services

    def services(dest, stream):
        svc = orig_services(dest, stream)
        if isinstance(svc, sim.SyncService):
            orig_reply = svc.reply
            svc.reply = lambda s, data, kind: None if kind == 'OKAY' else orig_reply(s, data, kind)
        return svc
    st.dev.services = services


def h_callback_same(ctx, mods, shape):
    """the presence or failure of a progress callback does not change what is sent"""
    logs = []
    size = shape['size']
    chunk = min(65536, shape['maxdata'] // 2)
    content = _content(ctx, size, chunk)
    for cb in (None, 'rec', 'raise'):
        st, w = _mkworld(ctx, mods, shape, sym_rid=False)
        o = w.try_call('connect')
        op = ops.Push(size=size, src=shape.get('src', 'path'), cb=cb, mtime=77)
        op.setup(ctx, st, w, 0)
        op.content = content
        if op.kind == 'path':
            w.vfs.add_file(op.src, content)
        else:
            op.src = env.SymBytesIO(content)
        o = op.run(w)
        ctx.observe('outcome %s' % cb, o.kind())
        if not o.ok:
            ctx.fail('push with callback=%s raised %s' % (cb, o.kind()), detail=repr(o.exc))
            return
        logs.append(w.written())
    ctx.check(sand(logs[0] == logs[1], logs[0] == logs[2]), 'the host byte stream is identical with, without and with a failing progress callback')


def h_dir(ctx, mods, shape):
    maxdata = shape['maxdata']
    st, w = _mkworld(ctx, mods, shape)
    o = w.try_call('connect')
    src = '/data/srcdir'
    w.vfs.add_dir('/data')
    w.vfs.add_dir(src)
    if shape.get('cwd_is_dir'):
        w.vfs.cwd = src
    files = {}
    for i, n in enumerate(shape['files']):
        name = 'f%d.bin' % i
        files[name] = _content(ctx, n, 2048)
        w.vfs.add_file(src + '/' + name, files[name])
    # a file of the same name in the cwd must not be picked up instead
    if shape['files'] and not shape.get('cwd_is_dir'):
        w.vfs.add_file('/cwd/f0.bin', b'WRONG FILE FROM THE WORKING DIRECTORY')
        if len(shape['files']) > 1:
            w.vfs.add_dir('/cwd/f1.bin')     # a directory of the cwd that happens to be called like a file of the pushed directory
    mtime = ctx.int('pmtime', 1, 2 ** 32 - 1)
    ddir = shape.get('device_dir', '/sdcard/dd')
    o = w.try_call('push', src, ddir, mtime=mtime)
    ctx.observe('outcome', o.kind())
    if not o.ok:
        if isinstance(o.exc, FileNotFoundError):
            ctx.fail('push(directory) raised FileNotFoundError: files are opened relative to the working directory instead of the pushed directory [F4]', detail=repr(o.exc))
        else:
            ctx.fail('push(directory) raised %s' % o.kind(), detail=repr(o.exc))
        return
    pushed = {norm(p[0]): p for p in st.fs.pushed}
    ctx.check(len(st.fs.pushed) == len(files), 'one SEND...DONE per file of the directory', detail=str(list(pushed)))
    for name, content in files.items():
        key = ('%s/%s,%d' % (ddir, name, 0o100770)).encode()
        if key not in pushed:
            ctx.fail("each file is sent to '<device_path>/<name>'", detail='%r not in %r' % (key, list(pushed)))
            continue
        pm, chunks, mt, complete = pushed[key]
        ctx.check(as_sym(content) == bjoin(chunks), "a file inside a pushed directory is read from that directory and its exact bytes are sent", detail=name)
        ctx.check(mt == mtime, 'DONE carries the mtime')
    opened = [s for s in st.dev.all_streams if getattr(s, 'dest_name', b'').startswith(b'shell:mkdir ')]
    ctx.check(len(opened) == 1, 'the directory is created on the device first')
    _check_sizes(ctx, st, maxdata)
    st.dev.decoder.finish()


def h_reconnect(ctx, mods, shape):
    """two sessions on the same device object with different negotiated maxdata: each push obeys the maxdata of ITS session"""
    st, w = _mkworld(ctx, mods, dict(shape, maxdata=shape['md'][0]))
    for k, md in enumerate(shape['md']):
        st.dev.maxdata = md
        o = w.try_call('connect')
        if not o.ok:
            ctx.fail('connect #%d failed' % k, detail=repr(o.exc))
            return
        npk = len(st.dev.decoder.packets)
        op = ops.Push(size=shape['size'], src=shape.get('src', 'path'))
        exp = op.setup(ctx, st, w, k)
        op.content = _content(ctx, shape['size'], min(65536, md // 2))
        if op.kind == 'path':
            w.vfs.add_file(op.src, op.content)
        else:
            op.src = env.SymBytesIO(op.content)
        o = op.run(w)
        ctx.observe('push#%d' % k, o.kind())
        if not o.ok:
            ctx.fail('push in session %d raised %s' % (k, o.kind()), detail=repr(o.exc))
            return
        op.check(ctx, w, st, o, exp, 'session %d: ' % k)
        for p in st.dev.decoder.packets[npk:]:
            if p.cmd == b'WRTE':
                ctx.check(len(p.payload) <= md, "no WRTE payload exceeds the maxdata negotiated for the current session", detail='%d > %d' % (len(p.payload), md))
        if shape.get('close'):
            w.try_call('close')
    st.dev.decoder.finish()


def h_step(ctx, mods, shape):
    """H07a: one inductive step of the send-buffer arithmetic for ALL send_idx, maxdata and data lengths."""
    hh = mods.hidden_helpers
    M = ctx.int('maxdata', 4096, 1 << 20)
    s = ctx.int('send_idx', 0, (1 << 20))
    ctx.assume(s < M)
    dev_cls = mods.adb_device.AdbDevice if shape['impl'] == 'sync' else mods.adb_device_async.AdbDeviceAsync
    MemT, MemTA = __import__('sx.harness.common', fromlist=['transports']).transports(mods)
    dev = dev_cls((MemT if shape['impl'] == 'sync' else MemTA)(None), banner=b'x')
    dev._maxdata = M
    mcs = dev.max_chunk_size
    ctx.check(sand(mcs <= 65536, mcs >= 1), 'max_chunk_size <= 64 KiB for every maxdata')
    ctx.check(mcs * 2 <= M, 'two chunks never exceed maxdata')
    n = ctx.int('n', 0, 65536)
    ctx.assume(n <= mcs)
    info = hh._FileSyncTransactionInfo.__new__(hh._FileSyncTransactionInfo)
    info.send_buffer = LenBuf(M) if ctx.symbolic else RecBuf(M)
    info.send_idx = s
    info.recv_buffer = bytearray()
    info.recv_message_format = b'<2I'
    info.recv_message_size = 8
    info._maxdata = M
    flushed = []

    def flush(adb_info, filesync_info):
        flushed.append(filesync_info.send_idx)
        filesync_info.send_idx = 0
    if shape['impl'] == 'sync':
        dev._filesync_flush = flush
    else:
        async def aflush(adb_info, filesync_info):
            flush(adb_info, filesync_info)
        dev._filesync_flush = aflush
    drv = env.SyncDriver() if shape['impl'] == 'sync' else env.AsyncDriver()
    which = shape['cmd']
    if which == 'DATA':
        drv.call(dev._filesync_send, mods.constants.DATA, None, info, data=core.LenBytes(n) if ctx.symbolic else bytes(n))
        reclen = 8 + n
    else:
        drv.call(dev._filesync_send, mods.constants.DONE, None, info, size=ctx.int('mtime', 0, 2 ** 32 - 1))
        reclen = 8
    for f in flushed:
        ctx.check(sand(f <= M, f >= 0), 'a flushed WRTE payload never exceeds maxdata')
    ctx.check(len(flushed) <= 1, 'at most one flush per record')
    w = info.send_buffer.writes
    ctx.check(len(w) == 1, 'exactly one record is written into the send buffer')
    if len(w) == 1:
        a, b, ln = w[0]
        ctx.check(sand(a >= 0, b <= M, b - a == ln, ln == reclen), 'the record (8-byte header + data) is written inside the buffer, without growing it')
        if not ctx.symbolic:
            ctx.check(len(info.send_buffer) == M, 'the send buffer keeps its size')
    ctx.check(sand(info.send_idx >= 0, info.send_idx <= M), 'invariant re-established: 0 <= send_idx <= maxdata')
    ctx.check(info.send_idx == (reclen if flushed else s + reclen), 'send_idx advanced by exactly the record length')


class RecBuf(bytearray):
    """native-mode twin of LenBuf: a real bytearray that records slice assignments"""

    def __init__(self, n):
        super().__init__(n)
        self.writes = []

    def __setitem__(self, sl, value):
        self.writes.append((sl.start, sl.stop, len(value)))
        super().__setitem__(sl, value)


class LenBuf:
    """stands for bytearray(maxdata) in the inductive step: records slice assignments"""

    def __init__(self, n):
        self.n = n
        self.writes = []

    def __sx_len__(self):
        return self.n

    def __setitem__(self, sl, value):
        self.writes.append((sl.start, sl.stop, core.len_shim(value)))

    def __getitem__(self, sl):
        return core.LenBytes(sl.stop - (sl.start or 0))


HARNESSES = {'reconnect': h_reconnect, 'push': h_push, 'callback_same': h_callback_same, 'dir': h_dir, 'step': h_step}


def _sizes(md, q):
    chunk = min(65536, md // 2)
    s = {0, 1, 2, 5, chunk - 1, chunk, chunk + 1, 2 * chunk + 3, int(3.5 * chunk)}
    around = range(md - 9, md + 2)
    s |= set(around if not q else (md - 9, md - 8, md - 1, md, md + 1))
    # sizes that fill the send buffer exactly (header 8 + path,mode + 8 per DATA)
    return sorted(x for x in s if x >= 0)


def shapes(tier, seed):
    q = tier == 'quick'
    out = []
    mds = (4096, 65536) if q else (4096, 8192, 65536, 1 << 18, 1 << 20)
    for impl in ('sync', 'async'):
        for cmd in ('DATA', 'DONE'):
            out.append({'h': 'step', 'impl': impl, 'cmd': cmd})
        for md in mds:
            for size in _sizes(md, q):
                if size > 1200000:
                    continue
                out.append({'h': 'push', 'impl': impl, 'maxdata': md, 'size': size})
            for size in (0, 5, md + 1):
                out.append({'h': 'push', 'impl': impl, 'maxdata': md, 'size': size, 'src': 'bytesio'})
        md = 4096
        # every file size for which the buffered SEND + DATA records end within 16 bytes of maxdata (flush boundary arithmetic)
        for dp_len in ((23,) if q else (1, 23, 40)):
            dp = '/' + 'p' * (dp_len - 1)
            base = md - (8 + dp_len + 7) - 8 - 8
            for size in range(base - 9, base + 10):
                out.append({'h': 'push', 'impl': impl, 'maxdata': md, 'size': size, 'device_path': dp})
        for cb in ('rec', 'raise'):
            for src in ('path', 'bytesio'):
                for size in (0, 5, 5000):
                    out.append({'h': 'push', 'impl': impl, 'maxdata': md, 'size': size, 'cb': cb, 'src': src})
        for src in ('path', 'bytesio'):
            out.append({'h': 'callback_same', 'impl': impl, 'maxdata': md, 'size': 5000, 'src': src})
        for dp in ('/', '/' + 'd' * 39, '/' + 'x' * 1023, '/sdcard/é€\U0001F600.bin'):
            out.append({'h': 'push', 'impl': impl, 'maxdata': md, 'size': 300, 'device_path': dp})
        for mode in (0o100644, 0o100777, 0o644):
            out.append({'h': 'push', 'impl': impl, 'maxdata': md, 'size': 10, 'st_mode': mode})
        out.append({'h': 'push', 'impl': impl, 'maxdata': md, 'size': 100, 'mtime0': True})
        for size in (0, 5, 5000):
            out.append({'h': 'push', 'impl': impl, 'maxdata': md, 'size': size, 'withhold': True})
        for mdp in ([1 << 20, 4096], [4096, 65536], [65536, 4096], [4096, 4096]):
            for close in (False, True):
                out.append({'h': 'reconnect', 'impl': impl, 'md': mdp, 'size': 10000, 'close': close})
        for files in ([], [3], [5, 0, 2500]):
            out.append({'h': 'dir', 'impl': impl, 'maxdata': md, 'files': files})
        out.append({'h': 'dir', 'impl': impl, 'maxdata': md, 'files': [4, 2], 'cwd_is_dir': True})
        for dd in ('/sdcard/My Photos', "/sdcard/it's (1) & more", '/sdcard/caf\u00e9'):
            out.append({'h': 'dir', 'impl': impl, 'maxdata': md, 'files': [3, 1], 'device_dir': dd})
        if not q:
            out.append({'h': 'push', 'impl': impl, 'maxdata': 1 << 20, 'size': 4 << 20})
    return out
