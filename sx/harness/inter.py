"""Single-threaded interleavings of several open streams: streaming_shell generators stepped alternately, optionally with a
complete operation in between.  Used by C04 (protocol monitor) and C06 (isolation)."""
from .. import core, sim
from ..core import as_sym, sand
from .common import World, Std
from . import ops


def h_interleave(ctx, mods, shape):
    mon = sim.Monitor(ctx)
    pick = (lambda ready: ctx.choose(len(ready), 'device: which ready stream next')) if shape.get('pick') else None
    if shape.get('device_first') is not None:
        pick = lambda ready: 0          # always the oldest ready stream first (its packets pile up in the store of the other reader)
    st = Std(ctx, maxdata=4096, monitor=mon, pick=pick, sym_rid=shape.get('sym_rid', True))
    st.dev.flow_control = not shape.get('no_flow_control')
    w = World(ctx, mods, st.dev, impl=shape['impl'], default_timeout=1)
    o = w.try_call('connect')
    if not o.ok:
        ctx.fail('connect failed', detail=repr(o.exc))
        return
    gens = []
    for g, lens in enumerate(shape['gens']):
        outs = [ctx.bytes('g%d_' % g, n) if n else b'' for n in lens]
        cmd = 'gen%d' % g
        st.shell_outs[b'shell:' + cmd.encode()] = outs
        gens.append({'outs': outs, 'cmd': cmd, 'it': None, 'got': [], 'done': False, 'exc': None, 'g': g})
    mid = shape.get('mid')
    mid_op = ops.make(mid) if mid else None
    mid_state = {'done': mid_op is None, 'exp': None, 'o': None}
    if mid_op:
        mid_state['exp'] = mid_op.setup(ctx, st, w, 9)
    order = shape.get('order')     # fixed schedule (list of generator indices / 'm'), else all interleavings
    step = 0
    while True:
        cands = [g for g in gens if not g['done']]
        if not mid_state['done']:
            cands = cands + ['m']
        if not cands:
            break
        if order is not None:
            if step >= len(order):
                break
            c = order[step]
            c = 'm' if c == 'm' else gens[c]
            if c != 'm' and c['done']:
                step += 1
                continue
        else:
            c = cands[ctx.choose(len(cands), 'which generator steps')] if len(cands) > 1 else cands[0]
        step += 1
        if c == 'm':
            mid_state['o'] = mid_op.run(w)
            mid_state['done'] = True
            continue
        if c['it'] is None:
            c['it'] = w.drv.iterate(w.dev.streaming_shell(c['cmd'], decode=False, read_timeout_s=shape.get('read_timeout', 2)))
        try:
            item = next(c['it'])
            c['got'].append(item)
            # the item has been delivered to the caller: by now its WRTE must have been acknowledged exactly once
            ms = mon.streams_by_dest(b'shell:' + c['cmd'].encode() + b'\0')
            if ms is not None:
                c['lid'] = ms.lid
            if ms is not None and shape.get('judge_okays', True):
                ctx.check(ms.host_okays == len(c['got']), 'protocol: each device WRTE delivered to the caller has been acknowledged with exactly one OKAY',
                          detail='stream %s: %d OKAYs after %d deliveries' % (c['cmd'], ms.host_okays, len(c['got'])))
        except StopIteration:
            c['done'] = True
        except Exception as e:
            c['done'] = True
            c['exc'] = e
            ms = mon.streams_by_dest(b'shell:' + c['cmd'].encode() + b'\0')
            if ms is not None:
                c['lid'] = ms.lid
    judge = shape.get('judge_results', True)
    for g in gens:
        tag = 'stream %d: ' % g['g']
        ctx.observe(tag + 'items', g['got'])
        if not judge:
            continue
        if g['exc'] is not None:
            k1 = [e for e in ctx.events if e.startswith('K1:') and 'local %s)' % g.get('lid') in e]
            if k1 and isinstance(g['exc'], (mods.exceptions.TcpTimeoutException, mods.exceptions.AdbTimeoutError)):
                ctx.fail(tag + "timed out waiting for its CLSE, which another stream's reader took off the wire and _AdbPacketStore.put dropped [K1]", detail=repr(g['exc']))
            else:
                ctx.fail(tag + 'streaming_shell raised %s although the device sent everything' % type(g['exc']).__name__, detail=repr(g['exc']))
            continue
        if order is not None and not g['done']:
            continue
        ok = len(g['got']) == len(g['outs'])
        ctx.check(ok, tag + 'one item per payload, no loss or duplication', detail='%d items for %d payloads' % (len(g['got']), len(g['outs'])))
        if ok:
            ctx.check(sand(*[as_sym(e) == x for e, x in zip(g['outs'], g['got'])]), tag + 'receives exactly the payloads addressed to it, in order')
    if mid_op:
        o = mid_state['o']
        if o is None:
            pass
        elif not judge:
            pass
        elif not o.ok:
            k1 = [e for e in ctx.events if e.startswith('K1:')]
            if k1 and isinstance(o.exc, (mods.exceptions.TcpTimeoutException, mods.exceptions.AdbTimeoutError)):
                ctx.fail("interleaved %s timed out after a CLSE was dropped by _AdbPacketStore.put [K1]" % mid_op.name, detail=repr(o.exc))
            else:
                ctx.fail('interleaved %s raised %s' % (mid_op.name, o.kind()), detail=repr(o.exc))
        else:
            mid_op.check(ctx, w, st, o, mid_state['exp'], 'interleaved op: ')
    if all(g['done'] and g['exc'] is None for g in gens) and (mid_op is None or (mid_state['o'] is not None and mid_state['o'].ok)):
        mon.finish(expect_closed=True)
    st.dev.decoder.finish()
