"""C16 - the async API is behaviourally identical to the sync API (DESIGN.md section 3, C16)."""
import importlib

from .. import core, sim, env
from ..core import SymBytes, SymInt, SymReal, SymStr, AbsStr, as_sym, sand

PROPERTY = 'C16'
ASSUMPTIONS = [
    'each scenario of the other checks (C01, C03-C05, C07-C13, C15) is run twice in the same path - AdbDevice, then AdbDeviceAsync - against identical simulators built from the SAME symbolic variables and the same finite choices; the second run executes under the path condition of the first, so a divergence in control flow shows up as a feasible extra branch with a model',
    'compared (as VCs): the complete host byte log of every transport, every observation the scenario records (returned values, yielded items, destination bytes, exception type names, callback logs)',
    'the async code is driven by stepping coroutines by hand (no event loop); aiofiles / run_in_executor are stubs over the same virtual file system; TcpTransportAsync vs TcpTransport are compared in C18',
]
BOUNDS = {
    'quick': 'a fixed cross-section of the quick shapes of the other checks: all of C05, C07 (sizes <= 20000), C03 checksum/command/readbytes, C12 reconnect, C15; every 2nd-9th shape of C01, C03 fragop, C04 ops, C08, C09, C10, C11, C12 faults; four C13 history prefixes; long device paths',
    'thorough': 'every quick shape of those checks (sync member of each sync/async pair)',
}
VALIDATE_EVERY = {'quick': 6, 'thorough': 10}


class Shared:
    """ctx wrapper: the first run records every symbolic input and finite choice it draws, the second run gets the same ones"""
    symbolic = property(lambda self: self.ctx.symbolic)
    abstract_decode = property(lambda self: self.ctx.abstract_decode)

    def __init__(self, ctx):
        self.ctx = ctx
        self.inputs = []
        self.choices_log = []
        self.mode = 'record'
        self.ipos = 0
        self.cpos = 0
        self.diverged = []
        self.obs = {'record': [], 'replay': []}
        self.worlds = {'record': [], 'replay': []}
        self.failed = {'record': [], 'replay': []}

    @property
    def events(self):
        return self.ctx.events

    def second(self):
        self.mode = 'replay'
        self.ipos = 0
        self.cpos = 0

    def register_world(self, w):
        self.worlds[self.mode].append(w)

    def _input(self, key, make):
        if self.mode == 'record':
            v = make()
            self.inputs.append((key, v))
            return v
        if self.ipos < len(self.inputs) and self.inputs[self.ipos][0] == key:
            v = self.inputs[self.ipos][1]
            self.ipos += 1
            return v
        self.diverged.append('input %r at position %d' % (key, self.ipos))
        self.ipos += 1
        return make()

    def int(self, name, lo=None, hi=None):
        return self._input(('int', name, lo, hi), lambda: self.ctx.int(name, lo, hi))

    def real(self, name, lo=None, hi=None):
        return self._input(('real', name, str(lo), str(hi)), lambda: self.ctx.real(name, lo, hi))

    def bytes(self, name, n):
        return self._input(('bytes', name, n), lambda: self.ctx.bytes(name, n))

    def choose(self, n, label=''):
        if self.mode == 'record':
            v = self.ctx.choose(n, label)
            self.choices_log.append((n, v))
            return v
        if self.cpos < len(self.choices_log) and self.choices_log[self.cpos][0] == n:
            v = self.choices_log[self.cpos][1]
            self.cpos += 1
            return v
        self.diverged.append('choice among %d (%s) at position %d' % (n, label, self.cpos))
        self.cpos += 1
        return self.ctx.choose(n, label)

    def assume(self, cond):
        return self.ctx.assume(cond)

    def check(self, prop, label, detail=None):
        # the property itself is judged by its own check; here only a definite failure is remembered
        if prop is False:
            self.failed[self.mode].append(label)
        return True

    def fail(self, label, detail=None):
        self.failed[self.mode].append(label)
        return False

    def observe(self, label, value):
        self.obs[self.mode].append((label, value))

    def event(self, name):
        self.ctx.event(name)

    def covered(self, q):
        self.ctx.covered(q)

    def implied(self, c):
        return self.ctx.implied(c)


def eq_val(a, b):
    """structural equality of observations -> bool / SymBool"""
    if isinstance(a, (SymBytes, bytes, bytearray)) or isinstance(b, (SymBytes, bytes, bytearray)):
        if not isinstance(a, (SymBytes, bytes, bytearray)) or not isinstance(b, (SymBytes, bytes, bytearray)):
            return False
        return as_sym(a) == as_sym(b)
    if isinstance(a, (SymStr, AbsStr)) or isinstance(b, (SymStr, AbsStr)):
        return a == b
    if isinstance(a, (list, tuple)) and isinstance(b, (list, tuple)):
        if len(a) != len(b):
            return False
        return sand(*[eq_val(x, y) for x, y in zip(a, b)])
    if isinstance(a, dict) and isinstance(b, dict):
        if set(a) != set(b):
            return False
        return sand(*[eq_val(a[k], b[k]) for k in a])
    if isinstance(a, (SymInt, SymReal)) or isinstance(b, (SymInt, SymReal)):
        return a == b
    try:
        return a == b
    except Exception:
        return repr(a) == repr(b)


def h_diff(ctx, mods, shape):
    hmod = importlib.import_module('sx.harness.' + shape['of'].lower())
    inner = dict(shape['inner'])
    fn = hmod.HARNESSES[inner['h']]
    sh = Shared(ctx)
    fn(sh, mods, dict(inner, impl='sync'))
    sh.second()
    fn(sh, mods, dict(inner, impl='async'))
    ctx.check(not sh.diverged, 'both implementations draw the same inputs and device choices', detail='; '.join(sh.diverged[:3]))
    o1, o2 = sh.obs['record'], sh.obs['replay']
    ctx.observe('sync', [v for _, v in o1][:6])
    ctx.observe('async', [v for _, v in o2][:6])
    ctx.check([l for l, _ in o1] == [l for l, _ in o2], 'both implementations reach the same observation points', detail='%r vs %r' % ([l for l, _ in o1][:8], [l for l, _ in o2][:8]))
    for (l1, v1), (l2, v2) in zip(o1, o2):
        if l1 != l2:
            break
        ctx.check(eq_val(v1, v2), 'AdbDeviceAsync returns the same value / raises the same exception type as AdbDevice (%s)' % l1, detail='%r vs %r' % (v1, v2))
    w1, w2 = sh.worlds['record'], sh.worlds['replay']
    ctx.check(len(w1) == len(w2), 'same number of transports used')
    for a, b in zip(w1, w2):
        la, lb = a.written(), b.written()
        ctx.check(len(la) == len(lb), 'AdbDeviceAsync sends the same number of bytes as AdbDevice', detail='%d vs %d' % (len(la), len(lb)))
        if len(la) == len(lb):
            ctx.check(la == lb, 'AdbDeviceAsync sends byte-for-byte the same packets as AdbDevice')
        ctx.check([len(x) for x in a.wire.written] == [len(x) for x in b.wire.written], 'the same sequence of transport writes (sizes)',
                  detail='%r vs %r' % ([len(x) for x in a.wire.written][:12], [len(x) for x in b.wire.written][:12]))
    ctx.check(sorted(set(sh.failed['record'])) == sorted(set(sh.failed['replay'])), 'the same assertions fail (or none) in both implementations',
              detail='%r vs %r' % (sh.failed['record'][:2], sh.failed['replay'][:2]))


HARNESSES = {'diff': h_diff}


def _pick(shapes, pred=None, every=1, limit=None):
    out = []
    n = 0
    for s in shapes:
        if s.get('impl') != 'sync':
            continue
        if pred is not None and not pred(s):
            continue
        if n % every == 0:
            out.append(s)
        n += 1
    return out[:limit] if limit else out


def shapes(tier, seed):
    q = tier == 'quick'
    out = []

    def add(of, shs):
        for s in shs:
            inner = {k: v for k, v in s.items() if k != 'impl'}
            d = {'h': 'diff', 'of': of, 'inner': inner}
            for k in ('abstract_decode', 'max_paths', 'xpart'):
                if k in s:
                    d[k] = s[k]
            out.append(d)

    mod = lambda n: importlib.import_module('sx.harness.' + n)
    every = (lambda n: n) if q else (lambda n: 1)
    add('C01', _pick(mod('c01').shapes('quick', seed), lambda s: s['h'] == 'service' and sum(s['lens']) <= 4, every=every(9)))
    add('C03', _pick(mod('c03').shapes('quick', seed), lambda s: s['h'] in ('checksum', 'command') or (s['h'] == 'readbytes' and s['L'] <= 4)))
    add('C03', _pick(mod('c03').shapes('quick', seed), lambda s: s['h'] == 'fragop', every=every(3)))
    add('C04', _pick(mod('c04').shapes('quick', seed), lambda s: s['h'] == 'ops', every=every(4)))
    add('C05', _pick(mod('c05').shapes('quick', seed)))
    add('C07', _pick(mod('c07').shapes('quick', seed), lambda s: s['h'] != 'step' and s.get('size', 0) <= 20000))
    add('C08', _pick(mod('c08').shapes('quick', seed), lambda s: s.get('cuts', 0) <= 1 and not s.get('big'), every=every(2)))
    add('C09', _pick(mod('c09').shapes('quick', seed), lambda s: s.get('cuts', 0) <= 1, every=every(2)))
    add('C10', _pick(mod('c10').shapes('quick', seed), lambda s: s['h'] in ('pull_fail', 'push_fail', 'pull_badid', 'push_badid'), every=every(2)))
    add('C11', _pick(mod('c11').shapes('quick', seed), lambda s: s['h'] == 'stall', every=every(5)))
    add('C12', _pick(mod('c12').shapes('quick', seed), lambda s: s['h'] == 'fault', every=every(3)))
    add('C12', _pick(mod('c12').shapes('quick', seed), lambda s: s['h'] != 'fault'))
    add('C13', _pick(mod('c13').shapes('quick', seed), lambda s: s['prefix'][0] in ('connect_ok', 'fail_timeout', 'pull_path', 'push_dir') or not q))
    add('C15', _pick(mod('c15').shapes('quick', seed), lambda s: s['h'] in ('sendlen', 'wfault') or (s['h'] == 'short' and (s['nshort'] == 1 or s.get('slow')))))
    # long device paths around the send-buffer boundary for list / stat / pull (path length close to maxdata)
    for L in range(4096 - 22, 4096 - 5):
        out.append({'h': 'diff', 'of': 'C16', 'inner': {'h': 'longpath', 'L': L}})
    return out


def h_longpath(ctx, mods, shape):
    from .common import World, Std
    st = Std(ctx, sym_rid=True)
    w = World(ctx, mods, st.dev, impl=shape['impl'], default_timeout=1)
    w.try_call('connect')
    path = '/' + 'p' * (shape['L'] - 1)
    st.fs.stat[path.encode()] = (1, 2, 3)
    st.fs.listing[path.encode()] = [(1, 2, 3, b'n')]
    st.fs.recv[path.encode()] = [b'abc']
    for name, args in (('stat', (path,)), ('list', (path,)), ('pull', (path, env.SymBytesIO()))):
        o = w.try_call(name, *args)
        ctx.observe(name, o.value if o.ok and name != 'pull' else o.kind())


HARNESSES['longpath'] = h_longpath
