"""C06 - concurrent streams are isolated: no cross-talk, loss, duplication or deadlock (DESIGN.md section 3, C06)."""
from .. import core, sim, sched, env
from ..core import as_sym, sand
from .common import World, Std, transports
from . import ops
from .inter import h_interleave

PROPERTY = 'C06'
ASSUMPTIONS = [
    'sync: each operation runs in a real thread under a deterministic baton-passing scheduler (exactly one thread runs); switch points = lock acquire/release, transport calls and, in the fine-grained shapes, a yield point before every statement of _AdbIOManager.*, _AdbPacketStore.* and AdbDevice._open (AST-injected; `x.attr += e` split into load/store); every scheduling decision is an explorer choice within the preemption bound',
    'threading.Lock promises no fairness, so any waiter may win (exact); bytecode-level preemption other than the += split is outside',
    "async: tasks on a real asyncio event loop (fresh per path); every transport call parks on a future and a controller completes one parked call per explorer choice, so task switching and asyncio.Lock FIFO hand-over are asyncio's own",
    'the reactive device chooses (explorer choice) which ready stream\'s packet goes on the wire next; payloads are symbolic per stream (distinct variables), remote ids concrete in schedule-heavy shapes and symbolic in the id-aliasing shapes',
    'single-threaded interleavings (generators stepped alternately) are included: every interleaving of the steps',
    'K1 (known finding): a timeout of stream A is attributed to K1 only if _AdbPacketStore.put dropped a CLSE for A\'s pair on that path (probe = monkey-patched put, no source change)',
]
BOUNDS = {
    'quick': '2 threads from {shell, stat, pull, streaming_shell}: coarse switch points with preemption bound 2, statement-level switch points with preemption bound 1; 2 async tasks, all completion orders; single-threaded interleavings of 2 generators (+1 operation); all device orderings',
    'thorough': 'quick, with coarse preemption bound 2 for all four pairs, plus 3 threads (coarse switch points, preemption bound 1) and 3 asyncio tasks (all completion orders) for three operation triples',
}
VALIDATE_EVERY = {'quick': 50, 'thorough': 100}
DEADLINE = {'quick': 900, 'thorough': 3 * 3600}


def _mk_ops(ctx, st, w, specs):
    out = []
    for k, spec in enumerate(specs):
        op = ops.make(spec)
        exp = op.setup(ctx, st, w, k)
        out.append((op, exp))
    return out


def _op_lids(st, op):
    """local ids of the streams an operation opened (by OPEN destination for shell-like operations, by the device path in the
    sync requests otherwise)"""
    out = set()
    want_dest = None
    if hasattr(op, 'cmd') and hasattr(op, 'prefix'):
        want_dest = op.prefix + op.cmd.encode()
    elif getattr(op, 'dest', None) is not None and isinstance(getattr(op, 'dest'), bytes):
        want_dest = op.dest
    path = getattr(op, 'path', None) or getattr(op, 'device_path', None)
    for s in st.dev.all_streams:
        d = getattr(s, 'dest_name', b'')
        if want_dest is not None and d == want_dest:
            out.add(s.lid)
        elif path is not None and d == b'sync:' and s.service is not None:
            for rid, body in getattr(s.service, 'records', []):
                b = core.norm(body) if not isinstance(body, (int, core.SymInt)) else b''
                if isinstance(b, bytes) and b.split(b',')[0] == path.encode():
                    out.add(s.lid)
    return out


def _judge(ctx, mods, w, st, results, deadlock, extra_events=(), judge=True, ignore_k1=False):
    exc = mods.exceptions
    if not judge:
        return
    if deadlock is not None:
        ctx.fail('deadlock: %s' % (deadlock,))
        return
    lids = {}
    for s in st.dev.all_streams:
        lids.setdefault(getattr(s, 'dest_name', b''), s.lid)
    for k, (op, exp, o) in enumerate(results):
        tag = 'operation %d (%s): ' % (k, op.name)
        ctx.observe(tag + 'outcome', op.observe(o) if o is not None else None)
        if o is None:
            ctx.fail(tag + 'never finished')
            continue
        if op.kw.get('expect_exc'):
            ctx.check((not o.ok) and type(o.exc).__name__ == op.kw['expect_exc'], tag + 'raises %s as it does alone' % op.kw['expect_exc'], detail=repr(o))
            continue
        if op.kw.get('silent'):
            ctx.check(not o.ok, tag + 'an open that the device never answers fails', detail=repr(o))
            continue
        if op.kw.get('may_fail') and not o.ok:
            continue      # e.g. an open that races with close(): it may fail, what it must not do is put a bad id on the wire
        if not o.ok:
            lids = _op_lids(st, op)
            k1 = [e for e in ctx.events if e.startswith('K1:') and any(('local %s)' % l) in e for l in lids)]
            if k1 and isinstance(o.exc, (exc.TcpTimeoutException, exc.AdbTimeoutError)):
                if ignore_k1:
                    continue      # the K1 timeout is reported once, under C06
                ctx.fail(tag + "timed out waiting for its CLSE, which another stream's reader took off the wire and _AdbPacketStore.put dropped [K1]", detail=repr(o.exc))
            else:
                ctx.fail(tag + 'raised %s although the device served every stream' % o.kind(), detail=repr(o.exc))
            continue
        op.check(ctx, w, st, o, exp, tag)


def _std(ctx, shape, pick):
    packetize = None
    if shape.get('wrte_size'):
        n = shape['wrte_size']
        packetize = lambda b, kind: [b[i:i + n] for i in range(0, len(b), n)] if kind in ('LIST', 'RECV', 'STAT') else [b]
    fail = None
    if shape.get('fail'):
        fail = {'at': tuple(shape['fail']), 'reason': ctx.bytes('reason', 2)}
    st = Std(ctx, maxdata=4096, pick=pick, sym_rid=shape.get('sym_rid', False), packetize=packetize, fail=fail)
    st.dup_clse = bool(shape.get('dup_clse'))
    return st


def _short_policy(ctx, shape):
    """at most shape['short_writes'] short writes (half of the buffer), each placed by explorer choice"""
    n = shape.get('short_writes', 0)
    if not n:
        return None
    budget = {'n': n, 'on': False}

    def short_write(L, idx):
        if budget['n'] <= 0 or L < 2 or idx < shape.get('short_from', 2):
            return L
        if ctx.choose(2, 'short write?'):
            budget['n'] -= 1
            return L // 2
        return L
    return short_write


def _after_and_ids(ctx, w, st, shape):
    """optional sequential opens after the concurrent phase; then: ids of streams that are open at the same time differ"""
    for i in range(shape.get('after_opens', 0)):
        st.shell_outs[b'shell:later%d' % i] = [b'x']
        o = w.try_call('_open', b'shell:later%d' % i, None, 2, None)
        if not o.ok:
            ctx.fail('a later open failed', detail=repr(o.exc))
    opens = [p for p in st.dev.decoder.packets if p.cmd == b'OPEN']
    ids = [p.a0 for p in opens]
    for i in range(len(ids)):
        ctx.check(sand(ids[i] >= 1, ids[i] <= 2 ** 32 - 1), 'every OPEN uses a local id in [1, 2^32-1]')
    # a stream is live from its OPEN until the host's CLSE for it (streams that were never answered count as dead once their open failed)
    live = []     # (index of OPEN packet, id)
    silent = getattr(st, 'silent_dests', set())
    closed_at = {}
    for p in st.dev.decoder.packets:
        if p.cmd == b'CNXN':
            live = []         # a new connection: every stream of the previous one is gone
        elif p.cmd == b'OPEN':
            for (j, x, dest) in live:
                if dest.rstrip(b'\0') in silent:
                    continue
                ctx.check(x != p.a0, 'no two streams that are open at the same time share a local id', detail='%r reused by %r' % (x, p))
            live.append((p.index, p.a0, core.norm(p.payload) if not isinstance(core.norm(p.payload), core.SymBytes) else b'?'))
        elif p.cmd == b'CLSE':
            live = [(j, x, d) for (j, x, d) in live if not (not isinstance(x, core.SymInt) and not isinstance(p.a0, core.SymInt) and x == p.a0)]


def h_threads(ctx, mods, shape):
    pick = (lambda ready: ctx.choose(len(ready), 'device: which ready stream next'))
    st = _std(ctx, shape, pick)
    sched.SchedLock.sched = None
    w = World(ctx, mods, st.dev, impl='sync', default_timeout=1, budget=600, short_write=_short_policy(ctx, shape))
    io = w.dev._io_manager
    io._store_lock.name = 'store_lock'
    io._transport_lock.name = 'transport_lock'
    w.dev._local_id_lock.name = 'local_id_lock'
    o = w.try_call('connect')
    if not o.ok:
        ctx.fail('connect failed', detail=repr(o.exc))
        return
    if shape.get('counter') is not None:
        w.dev._local_id = ctx.int('counter', 0, 2 ** 32 - 1) if shape['counter'] == 'sym' else shape['counter']
    items = _mk_ops(ctx, st, w, shape['ops'])
    s = sched.Scheduler(ctx, max_preempt=shape.get('preempt', 2))
    sched.SchedLock.sched = s
    sched.SchedLock.clock = w.clock
    if shape.get('transport_yields', True):
        w.wire.yield_hook = s.yield_point
    recs = []
    for k, (op, exp) in enumerate(items):
        recs.append(s.spawn('T%d:%s' % (k, op.name), (lambda op=op: op.run(w))))
    try:
        dl = s.run()
    finally:
        sched.SchedLock.sched = None
        w.wire.yield_hook = None
    results = []
    for (op, exp), r in zip(items, recs):
        o = r.result
        if r.exc is not None:
            from .common import Outcome
            o = Outcome(exc=r.exc)
        results.append((op, exp, o))
    ctx.check(not s.foreign_releases, 'a lock is only released by the thread that holds it', detail=str(s.foreign_releases[:2]))
    ctx.check(not s.inversions, 'lock order: the transport lock is never acquired while the store lock is held', detail=str(s.inversions[:2]))
    _judge(ctx, mods, w, st, results, dl, judge=shape.get('judge_results', True), ignore_k1=shape.get('ignore_k1', False))
    for l in (io._store_lock, io._transport_lock, w.dev._local_id_lock):
        ctx.check(not l.held, 'no lock is left held after all operations finished', detail=l.name)
    _after_and_ids(ctx, w, st, shape)
    st.dev.decoder.finish()


def h_async(ctx, mods, shape):
    pick = (lambda ready: ctx.choose(len(ready), 'device: which ready stream next'))
    st = _std(ctx, shape, pick)
    w = World(ctx, mods, st.dev, impl='async', default_timeout=1, budget=600, short_write=_short_policy(ctx, shape))
    ctrl = sched.AsyncController(ctx, w.wire)
    tr = sched.make_async_transport(mods, ctrl)
    dev = mods.adb_device_async.AdbDeviceAsync(tr, default_transport_timeout_s=1, banner=b'host')
    w.dev = dev
    w.wire.connected = False
    items = []

    def factory():
        async def connect_then(op):
            return await getattr(dev, '_sx_run')(op)
        return []

    # connect first (single task), then the concurrent operations
    res, dl = sched.run_async(ctx, lambda: [dev.connect()], ctrl)
    if dl is not None or res[0][1] is not None:
        ctx.fail('connect failed', detail=repr(res))
        return
    if shape.get('counter') is not None:
        dev._local_id = ctx.int('counter', 0, 2 ** 32 - 1) if shape['counter'] == 'sym' else shape['counter']
    items = _mk_ops(ctx, st, w, shape['ops'])

    async def run_op(op):
        from .common import Outcome
        try:
            if op.name == 'streaming_shell':
                got = []
                async for x in dev.streaming_shell(op.cmd, decode=False):
                    got.append(x)
                return Outcome(value=got)
            if op.name in ('shell', 'exec_out'):
                return Outcome(value=await getattr(dev, op.api)(op.cmd, decode=False))
            if op.name == 'stat':
                return Outcome(value=await dev.stat(op.path))
            if op.name == 'list':
                return Outcome(value=await dev.list(op.path))
            if op.name == 'pull':
                return Outcome(value=await dev.pull(op.path, op.dest, progress_callback=op._cb()))
            if op.name == 'push':
                return Outcome(value=await dev.push(op.src, op.device_path, st_mode=op.st_mode, mtime=op.mtime))
            if op.name == 'reconnect':
                await dev.close()
                return Outcome(value=await dev.connect())
            if op.name == 'open':
                return Outcome(value=await dev._open(op.dest, None, op.kw.get('read_timeout', 2), None))
        except Exception as e:
            return Outcome(exc=e)
        raise ValueError(op.name)

    res, dl = sched.run_async(ctx, lambda: [run_op(op) for op, _ in items], ctrl)
    results = []
    for (op, exp), (val, e) in zip(items, res):
        if e is not None:
            from .common import Outcome
            val = Outcome(exc=e) if not isinstance(e, sched.Deadlock) else None
        results.append((op, exp, val))
    _judge(ctx, mods, w, st, results, dl, judge=shape.get('judge_results', True), ignore_k1=shape.get('ignore_k1', False))
    _after_and_ids_async(ctx, w, st, shape, dev, ctrl)
    st.dev.decoder.finish()


def _after_and_ids_async(ctx, w, st, shape, dev, ctrl):
    n = shape.get('after_opens', 0)
    if n:
        for i in range(n):
            st.shell_outs[b'shell:later%d' % i] = [b'x']

        async def later():
            for i in range(n):
                await dev._open(b'shell:later%d' % i, None, 2, None)
        res, dl = sched.run_async(ctx, lambda: [later()], ctrl)
        if dl is not None or res[0][1] is not None:
            ctx.fail('a later open failed', detail=repr(res))
    shape2 = dict(shape, after_opens=0)
    _after_and_ids(ctx, w, st, shape2)


HARNESSES = {'threads': h_threads, 'async': h_async, 'interleave': h_interleave}


def shapes(tier, seed):
    q = tier == 'quick'
    out = []
    small = {'shell': ['shell', {'lens': [1]}], 'stat': 'stat', 'pull': ['pull', {'recs': [1]}], 'sshell': ['streaming_shell', {'lens': [1]}]}
    pairs = [('shell', 'shell'), ('shell', 'stat'), ('stat', 'pull'), ('sshell', 'shell')]
    for a, b in pairs:
        if q and (a, b) not in (('shell', 'shell'), ('stat', 'pull')):
            out.append({'h': 'threads', 'ops': [small[a], small[b]], 'preempt': 1, 'yields': False, 'max_paths': 60000})
        else:
            for i in range(16):
                out.append({'h': 'threads', 'ops': [small[a], small[b]], 'preempt': 2, 'yields': False, 'max_paths': 60000, 'xpart': [i, 16, 12]})
        for i in range(2):
            out.append({'h': 'threads', 'ops': [small[a], small[b]], 'preempt': 1, 'yields': True, 'max_paths': 60000, 'xpart': [i, 2, 8]})
        out.append({'h': 'async', 'ops': [small[a], small[b]], 'max_paths': 60000})
    out.append({'h': 'threads', 'ops': [small['shell'], small['shell']], 'preempt': 1, 'yields': True, 'sym_rid': True, 'max_paths': 60000})
    # a device that repeats every CLSE (seen in the wild): statement-level preemption
    out.append({'h': 'threads', 'ops': [small['shell'], small['shell']], 'preempt': 1, 'yields': True, 'dup_clse': True, 'max_paths': 100000, 'xpart': [0, 2, 8]})
    out.append({'h': 'threads', 'ops': [small['shell'], small['shell']], 'preempt': 1, 'yields': True, 'dup_clse': True, 'max_paths': 100000, 'xpart': [1, 2, 8]})
    out.append({'h': 'async', 'ops': [small['shell'], small['shell']], 'dup_clse': True, 'max_paths': 100000})
    # preemption inside _AdbPacketStore.put (plus locks / transport calls), bound 2, with a device that repeats CLSEs: shells
    # without output, so that the OKAY, the CLSE and its repeat of one stream can all be parked by the other stream's reader
    empty = ['shell', {'lens': []}]
    out.append({'h': 'threads', 'ops': [empty, empty], 'preempt': 2, 'yields': ['_AdbPacketStore.put'], 'dup_clse': True, 'max_paths': 100000})
    if not q:
        for i in range(8):
            out.append({'h': 'threads', 'ops': [empty, empty], 'preempt': 2, 'yields': ['_AdbPacketStore'], 'dup_clse': True, 'max_paths': 100000, 'xpart': [i, 8, 12]})
        out.append({'h': 'threads', 'ops': [empty, small['shell']], 'preempt': 2, 'yields': ['_AdbPacketStore.put'], 'dup_clse': True, 'max_paths': 200000})
    # a multi-packet listing / a rejected push next to a streaming_shell
    out.append({'h': 'async', 'ops': [['list', {'names': [1, 1, 1]}], small['sshell']], 'wrte_size': 24, 'max_paths': 200000})
    out.append({'h': 'async', 'ops': [['push', {'size': 5000, 'expect_exc': 'PushFailedError'}], small['sshell']], 'fail': ['done'], 'max_paths': 200000})
    out.append({'h': 'async', 'ops': [small['shell'], small['shell']], 'sym_rid': True, 'max_paths': 60000})
    for impl in ('sync', 'async'):
        out.append({'h': 'interleave', 'impl': impl, 'gens': [[1, 1], [1]], 'pick': True})
        out.append({'h': 'interleave', 'impl': impl, 'gens': [[1, 1], [1, 1]], 'pick': True})
        out.append({'h': 'interleave', 'impl': impl, 'gens': [[1, 1]], 'mid': 'shell', 'pick': True})
        out.append({'h': 'interleave', 'impl': impl, 'gens': [[2, 1]], 'mid': 'stat', 'pick': True})
        out.append({'h': 'interleave', 'impl': impl, 'gens': [[1], [1]], 'mid': ['pull', {'recs': [1]}], 'pick': True})
    if not q:
        # three threads (coarse switch points, preemption bound 1) and three asyncio tasks (all completion orders)
        triples = [('shell', 'stat', 'shell'), ('shell', 'sshell', 'pull'), ('stat', 'pull', 'shell')]
        for t3 in triples:
            out.append({'h': 'threads', 'ops': [small[x] for x in t3], 'preempt': 1, 'yields': False, 'max_paths': 400000})
            out.append({'h': 'async', 'ops': [small[x] for x in t3], 'max_paths': 400000})
        # (measured: preemption bound 2 with three threads, bound 3 with two, or statement-level bound 2 exceed 10^6 schedules
        #  per shape and are not part of any tier)
    return out
