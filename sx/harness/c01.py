"""C01 - shell/exec output is exactly what the device wrote, for every chunking (DESIGN.md section 3, C01)."""
import itertools

from .. import core, sim, utf8
from ..core import SymBytes, as_sym, bjoin, sand
from .common import World, cnxn_packet

PROPERTY = 'C01'
ASSUMPTIONS = [
    'scripted device: CNXN, OKAY(rid,1), k x WRTE(rid,1,payload_i), CLSE(rid,1); optional packets of a foreign stream (rid2, lid 7) interleaved and a stray WRTE after the CLSE',
    'payload bytes, rid, rid2 and the foreign payload are symbolic (rid, rid2 in [1, 2^32)); chunk count and lengths are enumerated (bounds)',
    'transport = in-memory stub; the first F reads after connect return a symbolic number of bytes in [1, min(requested, available)]',
    'decode=True stage 1: bytes.decode is an uninterpreted function (equality by congruence), sat answers are refined with the exact UTF-8 model; stage 2: exact UTF-8 model (validated against CPython in selftest) for small totals',
    'command strings are concrete',
    'two concurrent shell commands (asyncio tasks, all completion orders; threads with preemption bound 1): results that are returned are judged here, a timeout attributed to the known finding K1 is left to C06',
]
BOUNDS = {
    'quick': 'APIs shell/exec_out/root/streaming_shell x decode x impl(sync,async); chunks k<=3, chunk length <=3, total <=6 symbolic bytes; foreign packets <=2 (all slots); F<=1 fragmented read; exact UTF-8 model for total<=3 bytes',
    'thorough': 'k<=4, chunk length <=4, total <=10; foreign <=2; F<=2; exact UTF-8 model for total<=4 bytes',
}
VALIDATE_EVERY = {'quick': 6, 'thorough': 2}
LID = 1
FOREIGN_LID = 7


def _eq(a, b):
    if isinstance(b, (SymBytes, core.SymStr, core.AbsStr)):
        return b == a
    return a == b


def h_service(ctx, mods, shape):
    lens = shape['lens']
    api = shape['api']
    decode = shape['decode']
    rid = ctx.int('rid', 1, 2 ** 32 - 1)
    payloads = [ctx.bytes('p%d' % i, n) if n else b'' for i, n in enumerate(lens)]
    pkts = [sim.frame(b'OKAY', rid, LID)]
    for p in payloads:
        pkts.append(sim.frame(b'WRTE', rid, LID, p))
    pkts.append(sim.frame(b'CLSE', rid, LID))
    nforeign = shape.get('foreign', 0)
    if nforeign:
        rid2 = ctx.int('rid2', 1, 2 ** 32 - 1)
        for j in range(nforeign):
            fp = ctx.bytes('f%d' % j, 2)
            kind = shape.get('foreign_kind', 'WRTE')
            slot = 1 + ctx.choose(len(pkts) - 1, 'foreign slot')     # after the OKAY, at or before the CLSE
            pkts.insert(slot, sim.frame(kind.encode(), rid2, FOREIGN_LID, fp if kind == 'WRTE' else b''))
    if shape.get('after'):
        pkts.append(sim.frame(b'WRTE', rid, LID, ctx.bytes('late', 2)))
    dev = sim.ScriptDevice(ctx, [cnxn_packet()] + pkts)
    F = shape.get('frag', 0)
    state = {'base': None}

    def frag(n, avail, idx):
        if state['base'] is None or idx - state['base'] >= F:
            return min(n, avail)
        return 1 + ctx.choose(min(n, avail), 'read size')

    w = World(ctx, mods, dev, impl=shape['impl'], frag=frag if F else None)
    o = w.try_call('connect')
    if not o.ok:
        ctx.fail('connect failed', detail=repr(o.exc))
        return
    state['base'] = w.wire.reads
    cmd = shape.get('cmd', 'ls')
    if api == 'streaming_shell':
        o = w.stream('streaming_shell', cmd, decode=decode)
    elif api == 'root':
        o = w.try_call('root')
    else:
        o = w.try_call(api, cmd, decode=decode)
    ctx.observe('outcome', o.kind())
    if not o.ok:
        ctx.fail('%s raised %s' % (api, o.kind()), detail=repr(o.exc))
        return
    ctx.observe('result', o.value)
    whole = bjoin(payloads)
    if api == 'root':
        ctx.check(o.value is None, 'root returns None')
    elif api == 'streaming_shell':
        ctx.check(len(o.value) == len(payloads), 'streaming_shell yields one item per device WRTE (including empty ones)',
                  detail='%d items for %d payloads' % (len(o.value), len(payloads)))
        if len(o.value) == len(payloads):
            conj = []
            for got, p in zip(o.value, payloads):
                want = as_sym(p).decode('utf8', 'backslashreplace') if decode else p
                conj.append(_eq(got, want))
            ctx.check(sand(*conj), 'streaming_shell yields exactly the device payloads, in order' + (' (each decoded on its own)' if decode else ''))
    else:
        if decode:
            want = whole.decode('utf8', 'backslashreplace')
            ctx.check(_eq(o.value, want), '%s(decode=True) == backslashreplace-UTF-8 decoding of the whole concatenation' % api)
        else:
            ctx.check(_eq(o.value, whole), '%s(decode=False) == exact concatenation of the payloads written on this stream' % api)
    dev.decoder.finish()
    ctx.check(not w.wire.over_reads, 'no read requests more bytes than remain in the current packet', detail=str(w.wire.over_reads[:2]))


from .c06 import h_threads, h_async
from .inter import h_interleave

HARNESSES = {'service': h_service, 'threads': h_threads, 'async': h_async, 'interleave': h_interleave}


def _len_tuples(maxk, maxlen, maxtotal, minlen=0):
    out = []
    for k in range(0, maxk + 1):
        for t in itertools.product(range(minlen, maxlen + 1), repeat=k):
            if sum(t) <= maxtotal:
                out.append(list(t))
    return out


def shapes(tier, seed):
    q = tier == 'quick'
    out = []
    impls = ('sync', 'async')
    lens_all = _len_tuples(3, 3, 6) if q else _len_tuples(4, 4, 10)
    # 1. decode=False, all APIs, all chunkings
    for impl in impls:
        for lens in lens_all:
            for api in ('shell', 'exec_out', 'streaming_shell'):
                out.append({'h': 'service', 'impl': impl, 'api': api, 'decode': False, 'lens': lens})
        for lens in ([], [2], [1, 0, 2]):
            out.append({'h': 'service', 'impl': impl, 'api': 'root', 'decode': False, 'lens': lens})
    # 2. decode=True with decode as an uninterpreted function (all chunkings; per-chunk decoding makes the VC sat)
    for impl in impls:
        for lens in lens_all:
            for api in ('shell', 'exec_out', 'streaming_shell'):
                out.append({'h': 'service', 'impl': impl, 'api': api, 'decode': True, 'lens': lens, 'abstract_decode': True})
    # 3. decode=True with the exact UTF-8 model (small totals): never raises, equals the decoding of the whole
    exact_total = 3 if q else 4
    for impl in impls:
        for lens in _len_tuples(3, exact_total, exact_total, minlen=1):
            if not lens:
                continue
            for api in (('shell', 'streaming_shell') if q else ('shell', 'exec_out', 'streaming_shell')):
                out.append({'h': 'service', 'impl': impl, 'api': api, 'decode': True, 'lens': lens})
    # 4. foreign-stream packets interleaved, stray packet after the close
    flens = [[], [1], [2, 1], [0, 2]] if q else [[], [1], [2, 1], [0, 2], [1, 1, 1], [3, 0, 1]]
    for impl in impls:
        for lens in flens:
            for nf in (1, 2):
                for api in ('shell', 'streaming_shell'):
                    out.append({'h': 'service', 'impl': impl, 'api': api, 'decode': False, 'lens': lens, 'foreign': nf, 'after': True})
            out.append({'h': 'service', 'impl': impl, 'api': 'shell', 'decode': False, 'lens': lens, 'foreign': 1, 'foreign_kind': 'OKAY'})
            out.append({'h': 'service', 'impl': impl, 'api': 'shell', 'decode': True, 'lens': lens, 'foreign': 1, 'abstract_decode': True, 'after': True})
    # 5. fragmented reads
    for impl in impls:
        for lens in ([[2, 1], [0, 3]] if q else [[2, 1], [0, 3], [1, 1, 1], [4]]):
            for F in ((1, 2) if lens == [2, 1] or not q else (1,)):
                for api in ('shell', 'streaming_shell'):
                    out.append({'h': 'service', 'impl': impl, 'api': api, 'decode': False, 'lens': lens, 'frag': F})
    # 7. two shell commands running concurrently: each returns exactly what the device wrote on ITS stream (a timeout caused by the
    #    known finding K1 is reported by C06, not here)
    sh2 = ['shell', {'lens': [1, 1]}]
    out.append({'h': 'async', 'ops': [sh2, sh2], 'ignore_k1': True, 'max_paths': 60000})
    out.append({'h': 'async', 'ops': [sh2, ['streaming_shell', {'lens': [1, 1]}]], 'ignore_k1': True, 'max_paths': 60000})
    out.append({'h': 'threads', 'ops': [sh2, sh2], 'preempt': 1, 'yields': False, 'ignore_k1': True, 'max_paths': 60000})
    # 8. a paused streaming_shell whose stream receives 70 payloads while another command is running (a device that does not wait
    #    for the OKAY between its WRTEs): all of them arrive, in order
    for impl in impls:
        out.append({'h': 'interleave', 'impl': impl, 'gens': [[1] * 70], 'mid': 'shell', 'pick': False, 'order': [0, 'm'] + [0] * 72, 'device_first': 0, 'no_flow_control': True, 'judge_okays': False})
    # 6. non-ASCII command string (concrete)
    for impl in impls:
        out.append({'h': 'service', 'impl': impl, 'api': 'shell', 'decode': False, 'lens': [2, 2], 'cmd': 'echo € \U0001F600'})
    return out
