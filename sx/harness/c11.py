"""C11 - no operation hangs: a stalled device produces a timeout error in bounded time (DESIGN.md section 3, C11)."""
from fractions import Fraction

from .. import core, sim, env
from ..core import SymReal, rmin, rmax, sand, sor, as_sym
from .common import World, Std
from . import ops

PROPERTY = 'C11'
ASSUMPTIONS = [
    'virtual clock: time.time() returns a symbolic real; only transport reads advance it',
    'silence: a read with nothing pending blocks for exactly the transport timeout it was given, then raises the transport timeout error (timeout None = blocks forever = reported as a hang)',
    'end-of-stream / trickle / foreign-traffic / unexpected-command stalls: every read returns after a symbolic delay d_k with max(r/4, 1 ms) <= d_k <= max(t_eff, r/4, 1 ms) (r = read timeout, t_eff = effective transport timeout); this bounds the trip count of the wait loops',
    'operation budget of 96 transport calls is the unwinding assertion: exceeding it is reported as possible non-termination, never as a pass',
    'timeouts transport_timeout_s / read_timeout_s / timeout_s are symbolic reals (or None by enumeration); bound asserted: elapsed virtual time since the stall began <= 4*(max(r,0)+max(t_eff,0)) (+ timeout_s for whole-command limits; x2 for pull, whose closing handshake waits again)',
]
BOUNDS = {
    'quick': 'H11a: all real t, r, T (None by enumeration). H11b: operations connect/shell/streaming_shell/stat/list/pull/push(2 WRTEs) x every awaited packet x stall kinds {silence, eof, trickle, foreign, unexpected} x timeouts {t None|sym, r sym>0, T None|sym} plus r in {0, -1} concrete; sync+async',
    'thorough': 'additionally exec_out/root, push with 4 WRTEs, auth connects, two stalls kinds combined per run',
}
VALIDATE_EVERY = {'quick': 5, 'thorough': 2}
BUDGET = 96


def h_info(ctx, mods, shape):
    """H11a: the effective timeouts always satisfy transport <= read <= total, for ALL real values"""
    t = None if shape['t_none'] else ctx.real('t')
    r = ctx.real('r')
    T = None if shape['T_none'] else ctx.real('T')
    info = mods.hidden_helpers._AdbTransactionInfo(1, 2, t, r, T)
    ctx.observe('eff', (info.transport_timeout_s, info.read_timeout_s, info.timeout_s))
    ctx.check(info.transport_timeout_s <= info.read_timeout_s, 'effective transport timeout <= effective read timeout')
    if T is not None:
        ctx.check(info.read_timeout_s <= info.timeout_s, 'effective read timeout <= total timeout')
        ctx.check(info.timeout_s == T, 'total timeout kept')
    ctx.check(info.read_timeout_s <= r, 'effective read timeout never exceeds the requested one')
    if t is not None:
        ctx.check(info.transport_timeout_s <= t, 'effective transport timeout never exceeds the requested one')


class Staller:
    """turns the healthy device into a stalled one after `after` packets of the operation under test"""

    def __init__(self, ctx, st, w, kind, after, r, t_eff):
        self.ctx, self.st, self.w, self.kind, self.after = ctx, st, w, kind, after
        self.base = None
        self.started_at = None
        self.r, self.t_eff = r, t_eff
        self.n = 0

    def arm(self):
        self.base = len(self.st.dev.emitted)

    def active(self):
        return self.base is not None and len(self.st.dev.emitted) - self.base >= self.after

    def delay(self):
        lo = rmax(self.r / 4, Fraction(1, 1000))
        hi = rmax(lo, self.t_eff)
        d = self.ctx.real('d')
        self.ctx.assume(sand(d >= lo, d <= hi))
        return d

    def mark(self):
        if self.started_at is None:
            self.started_at = self.w.clock.now

    # device gate: may the device emit now?
    def gate(self, dev, pkt, stream):
        if not self.active():
            return True
        if self.kind == 'trickle':
            return True
        return False

    def install(self):
        dev, wire = self.st.dev, self.w.wire
        dev.gate = self.gate
        orig_read = wire.read
        stall = self

        def read(n, t):
            if not stall.active():
                return orig_read(n, t)
            stall.mark()
            kind = stall.kind
            if kind == 'silence':
                return orig_read(n, t)       # nothing pending: blocks for t, raises the transport timeout
            wire._tick('r')
            wire.reads += 1
            wire.read_timeouts.append(t)
            if kind == 'eof':
                stall.w.clock.advance(stall.delay())
                return b''
            if kind == 'trickle':
                if not dev.pending():
                    return orig_read(n, t)
                stall.w.clock.advance(stall.delay())
                return core.norm(dev.take(1))
            # endless traffic that is not what the operation waits for
            if not len(dev.wire):
                lid = dev.all_streams[-1].lid if dev.all_streams else 1
                rid = dev.all_streams[-1].rid if dev.all_streams else 1
                if kind == 'foreign':
                    dev.inject(sim.frame(b'WRTE', 4242, 99, b'zz'))
                elif kind == 'own_wrte':
                    dev.inject(sim.frame(b'WRTE', rid, lid, b'zz'))
                elif kind == 'auth_again':
                    dev.inject(sim.frame(b'AUTH', 1, 0, b'T' * 20))
                else:
                    dev.inject(sim.frame(b'SYNC', rid, lid, b''))
            stall.w.clock.advance(stall.delay())
            k = min(n, len(dev.wire))
            return core.norm(dev.take(k))
        wire.read = read


def _timeouts(ctx, shape):
    t = None if shape.get('t') == 'none' else (ctx.real('t', Fraction(1, 100), 50) if shape.get('t', 'sym') == 'sym' else Fraction(shape['t']))
    r = ctx.real('r', Fraction(1, 100), 50) if shape.get('r', 'sym') == 'sym' else Fraction(shape['r'])
    T = None if shape.get('T', 'none') == 'none' else (ctx.real('T', Fraction(1, 100), 50) if shape['T'] == 'sym' else Fraction(shape['T']))
    return t, r, T


def _run(ctx, w, st, opname, t, r, T):
    kw = {'transport_timeout_s': t, 'read_timeout_s': r}
    if opname == 'connect':
        return w.try_call('connect', **kw)
    if opname == 'connect_auth':
        from .c05 import StubSigner
        at = T if T is not None else None
        return w.try_call('connect', rsa_keys=[StubSigner(0, [])], auth_timeout_s=at, **kw)
    if opname in ('shell', 'exec_out'):
        return w.try_call(opname, 'cmd0', timeout_s=T, decode=False, **kw)
    if opname == 'root':
        return w.try_call('root', timeout_s=T, **kw)
    if opname == 'streaming_shell':
        return w.stream('streaming_shell', 'cmd0', decode=False, **kw)
    if opname == 'stat':
        return w.try_call('stat', '/dev/f0', **kw)
    if opname == 'list':
        return w.try_call('list', '/dev/d0', **kw)
    if opname == 'pull':
        return w.try_call('pull', '/dev/p0', env.SymBytesIO(), **kw)
    if opname == 'push':
        return w.try_call('push', '/cwd/src0.bin', '/sdcard/dst0', mtime=5, **kw)
    raise ValueError(opname)


def _prepare(ctx, st, w, opname, shape):
    st.shell_outs[b'shell:cmd0'] = [b'ab', b'c']
    st.shell_outs[b'exec:cmd0'] = [b'ab', b'c']
    st.shell_outs[b'root:'] = [b'restarting\n']
    st.fs.stat[b'/dev/f0'] = (1, 2, 3)
    st.fs.listing[b'/dev/d0'] = [(1, 2, 3, b'n1'), (4, 5, 6, b'n2')]
    st.fs.recv[b'/dev/p0'] = [b'abc', b'de']
    w.vfs.add_file('/cwd/src0.bin', bytes(range(256)) * (shape.get('push_size', 6000) // 256))


def npackets(mods, shape):
    """number of packets the device emits for the operation when healthy (a dry run)"""
    ctx = core.NativeCtx({}, [])
    key = (shape['op'], shape.get('push_size'), shape['impl'], bool(shape.get('auth')))
    if key in _NP:
        return _NP[key]
    prev = core.CUR
    core.CUR = None
    try:
        nm = __import__('sx.run', fromlist=['get_mods']).get_mods(False)
        st = Std(ctx, sym_rid=False)
        st.dev.packetize = None
        w = World(ctx, nm, st.dev, impl=shape['impl'])
        _prepare(ctx, st, w, shape['op'], shape)
        if shape['op'] == 'connect_auth':
            from .c05 import make_auth
            st.dev.auth, _ = make_auth(ctx, 1, ('pubkey',))
        if not shape['op'].startswith('connect'):
            w.call('connect')
        base = len(st.dev.emitted)
        o = _run(ctx, w, st, shape['op'], None, 10, None)
        assert o.ok, o
        _NP[key] = len(st.dev.emitted) - base
    finally:
        core.CUR = prev
    return _NP[key]


_NP = {}


def h_stall(ctx, mods, shape):
    opname = shape['op']
    t, r, T = _timeouts(ctx, shape)
    # effective timeouts as the property states them
    r_eff = r if T is None else rmin(r, T)
    t_eff = r_eff if t is None else rmin(t, r_eff)
    if opname == 'connect_auth':
        # here T is auth_timeout_s (the transport timeout of the final wait), not a whole-command limit
        r_eff = r
        t_eff = rmax(T, rmin(t, r) if t is not None else r) if T is not None else (rmin(t, r) if t is not None else r)
    st = Std(ctx, sym_rid=False)
    w = World(ctx, mods, st.dev, impl=shape['impl'], budget=BUDGET + 40)
    _prepare(ctx, st, w, opname, shape)
    if opname == 'connect_auth':
        from .c05 import make_auth
        st.dev.auth, _ = make_auth(ctx, 1, ('never',))
    if not opname.startswith('connect'):
        o = w.try_call('connect')
        if not o.ok:
            ctx.fail('connect failed', detail=repr(o.exc))
            return
    stall = Staller(ctx, st, w, shape['kind'], shape['after'], r_eff, t_eff)
    stall.install()
    stall.arm()
    calls0 = w.wire.calls
    nrt0 = len(w.wire.read_timeouts)
    w.wire.budget = calls0 + BUDGET
    t0 = w.clock.now
    o = _run(ctx, w, st, opname, t, r, T)
    ctx.observe('outcome', o.kind())
    exc = mods.exceptions
    if w.wire.block_forever:
        ctx.fail('%s blocks forever: a transport read was issued with timeout None' % opname)
        return
    if o.ok:
        ctx.fail('%s returned normally although the device stalled before completing it (fabricated result)' % opname, detail=repr(o.value)[:100])
        return
    ok_types = (exc.AdbTimeoutError, exc.TcpTimeoutException)
    ctx.check(isinstance(o.exc, ok_types), '%s fails with AdbTimeoutError or the transport timeout error' % opname, detail=repr(o.exc))
    start = stall.started_at if stall.started_at is not None else t0
    elapsed = w.clock.now - start
    zero = Fraction(0)
    bound = 4 * (rmax(r_eff, zero) + rmax(t_eff, zero)) + Fraction(8, 1000)    # + 8 x the stub's 1 ms minimum cost of a read
    if opname == 'pull':
        bound = 2 * bound
    if opname == 'connect_auth':
        bound = 4 * (rmax(r, zero) + rmax(t_eff, zero) + (rmax(T, zero) if T is not None else 0)) + Fraction(8, 1000)
    if T is not None:
        bound = bound + rmax(T, zero)
    ctx.observe('elapsed', elapsed)
    ctx.check(elapsed <= bound, '%s gives up within 4*(read_timeout + transport_timeout) of the stall (virtual time)' % opname)
    rts = w.wire.read_timeouts[nrt0:]
    if opname == 'connect_auth':
        rts = []      # the wait for the user's confirmation uses auth_timeout_s (None = wait for the user) by design
    for rt in rts:
        if rt is None:
            ctx.fail('a transport call was issued with timeout None (would block forever on a silent device)')
            break
    if rts:
        ctx.check(sand(*[x <= r_eff for x in rts[-3:] if x is not None]), 'transport timeouts handed to the transport never exceed the effective read timeout')


HARNESSES = {'info': h_info, 'stall': h_stall}


def shapes(tier, seed):
    q = tier == 'quick'
    out = []
    for tn in (False, True):
        for Tn in (False, True):
            out.append({'h': 'info', 't_none': tn, 'T_none': Tn})
    oplist = ['connect', 'shell', 'streaming_shell', 'stat', 'list', 'pull', 'push'] + ([] if q else ['exec_out', 'root'])
    kinds = ['silence', 'eof', 'trickle', 'foreign', 'unexpected', 'own_wrte']
    for impl in ('sync', 'async'):
        for op in oplist:
            base = {'h': 'stall', 'impl': impl, 'op': op}
            n = None
            try:
                n = npackets(None, dict(base))
            except Exception:
                n = 4
            for after in range(0, n):
                for kind in kinds:
                    if kind == 'own_wrte':
                        # a flood of WRTEs on the own stream is a stall only where the operation waits for an OKAY or a CLSE
                        if op == 'connect':
                            continue
                        if op in ('shell', 'streaming_shell', 'exec_out', 'root') and after != 0:
                            continue
                        if op in ('stat', 'list', 'pull') and after not in (0, 1, n - 1):
                            continue
                        if op == 'push' and after == n - 2:
                            continue
                    tcfgs = [{'t': 'sym', 'r': 'sym'}]
                    if kind in ('silence', 'eof'):
                        tcfgs.append({'t': 'none', 'r': 'sym'})
                    if op in ('shell', 'exec_out', 'root') and kind in ('silence', 'foreign'):
                        tcfgs.append({'t': 'none', 'r': 'sym', 'T': 'sym'})
                        tcfgs.append({'t': 'sym', 'r': 'sym', 'T': 'sym'})
                    if after == 0 and kind in ('silence', 'eof', 'foreign'):
                        tcfgs.append({'t': 1, 'r': 0})
                        tcfgs.append({'t': 1, 'r': -1})
                        tcfgs.append({'t': 0, 'r': 1})
                    for tc in tcfgs:
                        out.append(dict(base, after=after, kind=kind, **tc))
    # connect with authentication: all keys rejected, public key offered, then the device only repeats its challenge (or sends
    # other traffic) instead of CNXN; auth_timeout_s None or symbolic.  (Silence with auth_timeout_s=None waits for the user by design.)
    for impl in ('sync', 'async'):
        for kind in ('auth_again', 'foreign', 'eof', 'trickle'):
            for tc in ({'t': 'sym', 'r': 'sym', 'T': 'none'}, {'t': 'sym', 'r': 'sym', 'T': 'sym'}):
                out.append({'h': 'stall', 'impl': impl, 'op': 'connect_auth', 'after': 2, 'kind': kind, **tc})
        out.append({'h': 'stall', 'impl': impl, 'op': 'connect_auth', 'after': 2, 'kind': 'silence', 't': 'sym', 'r': 'sym', 'T': 'sym'})
    return out
