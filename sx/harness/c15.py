"""C15 - every message reaches the peer completely, even when the transport writes short (DESIGN.md section 3, C15)."""
from .. import core, sim, env
from ..core import as_sym, sand
from .common import World, Std
from . import ops

PROPERTY = 'C15'
ASSUMPTIONS = [
    'in-memory transport whose bulk_write accepts k bytes and returns k (as sockets and USB do): at most N short writes per run, placed at every write-call index by exhaustive choice; for a short write of a buffer of length L, k ranges over ALL values 1..L-1 when L <= 32 and over {1, 2, L//2, L-1} otherwise',
    'the peer is the reactive device simulator fed with exactly the accepted bytes; its independent decoder judges the received stream (a truncated message shows as a framing/checksum error or as a stalled operation)',
    'H15b: the real TcpTransport.bulk_write / TcpTransportAsync.bulk_write over socket/select/StreamWriter stubs (see C18): send() accepts a count chosen exhaustively the same way; real loopback sockets with constrained SO_SNDBUF are outside (the kernel is replaced by the documented send() contract)',
]
BOUNDS = {
    'quick': 'operations connect, shell, stat, push (3 WRTEs): one short write at every call index with all k of the representative set; two short writes for connect+shell; sync+async; three slow short writes (6 s each, read_timeout_s 10 s; accepted counts {1, L//2}) for shell/stat/pull against a device that does or does not wait for acknowledgements; TcpTransport/TcpTransportAsync under _AdbIOManager._send with up to 3 short send()s in a 64-byte message',
    'thorough': 'two short writes anywhere for every operation; push with 6 WRTEs',
}
VALIDATE_EVERY = {'quick': 6, 'thorough': 6}


def reps(L):
    if L <= 1:
        return []
    if L <= 32:
        return list(range(1, L))
    return sorted({1, 2, L // 2, L - 1})


def h_short(ctx, mods, shape):
    budget = {'n': shape['nshort']}
    state = {'on': False, 'shorts': [], 'rest': None, 'truncated': False}

    slow = shape.get('slow')

    def short_write(L, idx):
        k = short_write1(L, idx)
        if slow:
            # lenient mode: a message is truncated when the write after a short one is not exactly the unsent remainder;
            # nothing after that point is delivered to the simulated services, the harness judges it when the call returns
            data = as_sym(w.wire.current_write)
            if state['rest'] is not None and not (len(data) == len(state['rest']) and data == state['rest']):
                state['truncated'] = True
                st.dev.decoder.broken = True
            state['rest'] = data[k:] if k < L else None
        return k

    def short_write1(L, idx):
        if not state['on'] or budget['n'] <= 0:
            return L
        r = reps(L)
        if shape.get('few') and L > 1:
            r = sorted({1, L // 2} - {0})
        if not r:
            return L
        c = ctx.choose(len(r) + 1, 'accepted byte count')
        if c == 0:
            return L
        budget['n'] -= 1
        state['shorts'].append((idx, r[c - 1], L))
        if slow:
            w.clock.advance(slow)      # the peer is slow to drain: this short write took `slow` seconds
        return r[c - 1]

    st = Std(ctx, sym_rid=True)
    if shape.get('no_flow_control'):
        st.dev.flow_control = False
    if slow:
        st.dev.decoder.lenient = True      # a call that raises may leave a truncated message behind: framing is judged when the call returns
    w = World(ctx, mods, st.dev, impl=shape['impl'], short_write=short_write, default_timeout=1)
    opname = shape['op']
    if opname == 'connect':
        state['on'] = True
        o = w.try_call('connect')
        ctx.observe('connect', o.kind())
        state['on'] = False
        if o.ok:
            r = w.try_call('shell', 'id', decode=False)
            ctx.check(r.ok and r.value == b'ok', 'after connect() returned, the connection works (the peer received the complete CNXN)', detail=repr(r))
    else:
        o = w.try_call('connect')
        op = ops.make(shape['spec'])
        exp = op.setup(ctx, st, w, 0)
        state['on'] = True
        o = op.run(w)
        state['on'] = False
        ctx.observe(opname, o.kind())
        if o.ok:
            op.check(ctx, w, st, o, exp, '')
    ctx.observe('shorts', state['shorts'])
    # whatever happened, the peer must have received whole messages, in order and without gaps - unless the call raised
    if o.ok:
        st.dev.decoder.finish()
        ctx.check(not state['truncated'], 'a message is never silently truncated: after a short write the unsent remainder follows, or the call raises')
        ctx.check(not st.dev.decoder.broken and not st.dev.decoder.framing_errors, 'the peer received a well-framed stream', detail=str(st.dev.decoder.framing_errors[:3]))
    else:
        ctx.check(True, 'the call raised (allowed)')
        if slow:
            ctx.check(isinstance(o.exc, (mods.exceptions.TcpTimeoutException, mods.exceptions.AdbTimeoutError)), 'a message that short, slow writes could not complete within read_timeout_s ends the call with a timeout error', detail=repr(o.exc))
        elif state['shorts'] and isinstance(o.exc, (mods.exceptions.TcpTimeoutException, mods.exceptions.AdbTimeoutError)):
            ctx.fail('after a short write the rest of the message was never sent: the peer got a truncated message and the operation stalled into a timeout', detail=repr(o.exc))


def h_sendlen(ctx, mods, shape):
    """H15c: _AdbIOManager._send for a payload of ANY length L in [0, 2^20] (content-free bytes of symbolic length):
    the transport is handed exactly 24 + L bytes, header first"""
    from .common import transports
    L = ctx.int('L', 0, 1 << 20)
    log = []
    Base = mods.base_transport.BaseTransport if shape['impl'] == 'sync' else mods.base_transport_async.BaseTransportAsync

    if shape['impl'] == 'sync':
        class T(Base):
            def close(self): pass
            def connect(self, t): pass
            def bulk_read(self, n, t): return b''
            def bulk_write(self, data, t):
                log.append(core.len_shim(data))
                return core.len_shim(data)
        io = mods.adb_device._AdbIOManager(T())
        drv = env.SyncDriver()
    else:
        class T(Base):
            async def close(self): pass
            async def connect(self, t): pass
            async def bulk_read(self, n, t): return b''
            async def bulk_write(self, data, t):
                log.append(core.len_shim(data))
                return core.len_shim(data)
        io = mods.adb_device_async._AdbIOManagerAsync(T())
        drv = env.AsyncDriver()
    data = core.LenBytes(L) if ctx.symbolic else bytes(L)
    msg = mods.adb_message.AdbMessage(mods.constants.WRTE, 1, 2, data)
    info = mods.hidden_helpers._AdbTransactionInfo(1, 2, 1, 10, None)
    try:
        drv.call(io._send, msg, info)
    except Exception as e:
        ctx.fail('_send raised %s' % type(e).__name__, detail=repr(e))
        return
    total = 0
    for n in log:
        total = total + n
    ctx.observe('writes', len(log))
    ctx.check(total == 24 + L, 'the transport is handed exactly header + payload bytes for every payload length')
    ctx.check(len(log) >= 1 and bool(log[0] >= 24), 'the 24-byte header goes out first')


def h_wfault(ctx, mods, shape):
    """one transient write timeout at every write-call index: the call raises, or the peer stream is intact"""
    st = Std(ctx, sym_rid=True)
    state = {'on': False, 'at': None, 'n': 0, 'hit': False}
    exc_t = mods.exceptions.TcpTimeoutException

    def fault(kind, idx):
        if kind != 'w' or not state['on']:
            return None
        i = state['n']
        state['n'] += 1
        if i == state['at']:
            state['hit'] = True
            return exc_t('transient write timeout: no data was sent')
        return None

    w = World(ctx, mods, st.dev, impl=shape['impl'], fault=fault, default_timeout=1)
    w.try_call('connect')
    op = ops.make(shape['spec'])
    exp = op.setup(ctx, st, w, 0)
    state['at'] = ctx.choose(shape['nwrites'], 'index of the failing write')
    state['on'] = True
    o = op.run(w)
    state['on'] = False
    ctx.observe('outcome', o.kind())
    if not state['hit']:
        return
    if o.ok:
        st.dev.decoder.finish()
        ctx.check(not st.dev.decoder.broken, 'a call that returned normally left a well-framed stream at the peer')
        op.check(ctx, w, st, o, exp, 'after a transient write timeout the call returned, so its result must be right: ')
    else:
        ctx.check(True, 'the call raised (allowed)')


from .c06 import h_threads, h_async

HARNESSES = {'short': h_short, 'sendlen': h_sendlen, 'wfault': h_wfault, 'threads': h_threads, 'async': h_async}


from .c18 import h_write as h_tcpwrite
HARNESSES['tcpwrite'] = h_tcpwrite


def shapes(tier, seed):
    q = tier == 'quick'
    out = []
    for impl in ('sync', 'async'):
        out.append({'h': 'short', 'impl': impl, 'op': 'connect', 'nshort': 1})
        out.append({'h': 'short', 'impl': impl, 'op': 'connect', 'nshort': 2})
        for name, spec in (('shell', 'shell'), ('stat', 'stat'), ('push', ['push', {'size': 9000}]), ('pull', ['pull', {}])):
            out.append({'h': 'short', 'impl': impl, 'op': name, 'spec': spec, 'nshort': 1})
            if name in ('shell',) or not q:
                out.append({'h': 'short', 'impl': impl, 'op': name, 'spec': spec, 'nshort': 2, 'max_paths': 400000})
        out.append({'h': 'sendlen', 'impl': impl})
        out.append({'h': 'wfault', 'impl': impl, 'spec': ['push', {'size': 7000}], 'nwrites': 14})
        out.append({'h': 'wfault', 'impl': impl, 'spec': 'shell', 'nwrites': 8})
        if not q:
            out.append({'h': 'short', 'impl': impl, 'op': 'push', 'spec': ['push', {'size': 20000}], 'nshort': 1})
    # slow short writes (each takes 6 s of virtual time, read_timeout_s = 10 s): a message they cannot complete in time raises;
    # the device does not wait for acknowledgements, so the rest of its answer is already there
    for impl in ('sync', 'async'):
        out.append({'h': 'short', 'impl': impl, 'op': 'shell', 'spec': ['shell', {'lens': [1]}], 'nshort': 3, 'few': True, 'slow': 6, 'no_flow_control': True, 'max_paths': 400000})
        out.append({'h': 'short', 'impl': impl, 'op': 'shell', 'spec': ['shell', {'lens': [1]}], 'nshort': 3, 'few': True, 'slow': 6, 'max_paths': 400000})
        out.append({'h': 'short', 'impl': impl, 'op': 'stat', 'spec': 'stat', 'nshort': 3, 'few': True, 'slow': 6, 'no_flow_control': True, 'max_paths': 400000})
        out.append({'h': 'short', 'impl': impl, 'op': 'pull', 'spec': ['pull', {}], 'nshort': 3, 'few': True, 'slow': 6, 'no_flow_control': True, 'max_paths': 400000})
    # the TCP transports under _AdbIOManager._send (socket layer stub of C18): >= 3 short send()s inside one message
    for impl in ('sync', 'async'):
        out.append({'h': 'tcpwrite', 'impl': impl, 'n': 3, 'nshort': 2})
        out.append({'h': 'tcpwrite', 'impl': impl, 'n': 40, 'nshort': 3, 'max_paths': 200000})
    # a short write while another stream is sending: the remainder still follows immediately (framing oracle only; results belong to C06)
    sh = ['shell', {'lens': [1]}]
    out.append({'h': 'async', 'ops': [sh, sh], 'short_writes': 1, 'judge_results': False, 'max_paths': 200000})
    out.append({'h': 'threads', 'ops': [sh, sh], 'short_writes': 1, 'preempt': 1, 'yields': False, 'judge_results': False, 'max_paths': 200000})
    return out
