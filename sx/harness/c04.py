"""C04 - per-stream protocol conformance: ids, one OKAY per WRTE, stop-and-wait, CLSE (DESIGN.md section 3, C04)."""
import itertools

from .. import core, sim
from .common import World, Std, cuts, split_at
from . import ops
from .inter import h_interleave
from .c14 import h_after_failed_open

PROPERTY = 'C04'
ASSUMPTIONS = [
    'reactive device simulator (sx/sim.py) with stop-and-wait on its own WRTEs; acks are emitted independently of service data, a data packet caused by host WRTE #k never precedes ack #k but may go before or after later acks (explorer choice)',
    'remote ids are symbolic over [1, 2^32) per stream, not assumed different from local ids; payloads, sync fields and file bytes symbolic',
    'the monitor (sx/sim.py Monitor) judges the HOST packets only; whether the operation then returns the right value belongs to C01/C07-C10',
    'reboot is used only for the OPEN-format rule (the host never reads the device CLSE of a reboot stream; the property lists shell, exec_out, streaming_shell, root, list, stat, pull, push)',
    'directory pushes use the pushed directory as virtual cwd (works before and after a repair of F4)',
]
BOUNDS = {
    'quick': 'single operations from {shell, exec_out, streaming_shell, root, reboot, list, stat, pull(+-callback), push(path/BytesIO, 1 and 3 WRTEs)} x maxdata {4096, 65536} x <=1 cut in each sync reply (all placements) x ack/data reorder choices; pairs of consecutive operations (cross-section); sync+async',
    'thorough': 'maxdata additionally 2^20; <=2 cuts; all ordered pairs of operations',
}
VALIDATE_EVERY = {'quick': 10, 'thorough': 4}

SINGLE = [
    'shell', 'exec_out', 'streaming_shell', 'root', 'stat', 'list',
    ['shell', {'lens': []}], ['streaming_shell', {'lens': [0, 2, 0]}],
    ['pull', {}], ['pull', {'cb': 'rec', 'dest': 'path'}], ['pull', {'cb': 'raise'}], ['pull', {'recs': []}],
    ['push', {}], ['push', {'src': 'bytesio'}], ['push', {'size': 0}], ['push', {'cb': 'rec'}], ['push', {'cb': 'raise'}],
    ['list', {'names': []}],
]


def h_ops(ctx, mods, shape):
    mon = sim.Monitor(ctx)
    ncuts = shape.get('cuts', 0)

    def packetize(b, kind):
        if not ncuts or len(b) < 2:
            return [b]
        return split_at(b, cuts(ctx, len(b), min(ncuts, len(b) - 1), 'reply cut'))

    reorder = (lambda s, c: ctx.choose(len(c), 'ack/data order')) if shape.get('reorder') else None
    fail = None
    if shape.get('fail'):
        fail = {'at': tuple(shape['fail']), 'reason': ctx.bytes('reason', 2)}
    st = Std(ctx, maxdata=shape['maxdata'], monitor=mon, packetize=packetize, reorder=reorder, fail=fail)
    st.dev.eager = bool(shape.get('eager'))
    st.dev.strict_causality = not shape.get('spec_order')
    st.truncate_recv = shape.get('truncate_recv')
    w = World(ctx, mods, st.dev, impl=shape['impl'])
    o = w.try_call('connect')
    if not o.ok:
        ctx.fail('connect failed', detail=repr(o.exc))
        return
    skip = []
    judge = shape.get('judge', True)
    for k, spec in enumerate(shape['ops']):
        op = ops.make(spec)
        exp = op.setup(ctx, st, w, k)
        nstreams = len(mon.streams)
        o = op.run(w)
        ctx.observe('op%d' % k, o.kind())
        if op.name == 'reboot':
            skip += list(range(nstreams, len(mon.streams)))
        if not o.ok:
            if judge:
                ctx.fail('%s raised %s against a well-behaved device' % (op.name, o.kind()), detail=repr(o.exc))
            return
        if judge:
            op.check(ctx, w, st, o, exp, 'op%d: ' % k)
    mon.finish(expect_closed=True, skip=skip)
    st.dev.decoder.finish()
    ctx.check(len(mon.streams) >= len(shape['ops']), 'every operation opened a stream')


HARNESSES = {'ops': h_ops, 'interleave': h_interleave, 'after_failed_open': h_after_failed_open}


def shapes(tier, seed):
    q = tier == 'quick'
    out = []
    maxdatas = (4096, 65536) if q else (4096, 65536, 1 << 20)
    for impl in ('sync', 'async'):
        for md in maxdatas:
            for spec in SINGLE:
                out.append({'h': 'ops', 'impl': impl, 'maxdata': md, 'ops': [spec], 'cuts': 0, 'reorder': True})
            out.append({'h': 'ops', 'impl': impl, 'maxdata': md, 'ops': ['reboot', 'shell'], 'cuts': 0})
            # a single sync request around / beyond the device's maxdata (8-byte header + path): still one WRTE at a time
            for pl in (md - 9, md - 8, md - 7, md + 5):
                out.append({'h': 'ops', 'impl': impl, 'maxdata': md, 'ops': [['stat', {'path_len': pl}]], 'cuts': 0})
            out.append({'h': 'ops', 'impl': impl, 'maxdata': md, 'ops': [['list', {'path_len': md + 5, 'names': [1]}]], 'cuts': 0})
            # multi-WRTE pushes (chunk = maxdata/2)
            for size in (md + 100, 3 * md):
                if size > 300000 and q:
                    continue
                out.append({'h': 'ops', 'impl': impl, 'maxdata': md, 'ops': [['push', {'size': size}]], 'cuts': 0, 'reorder': True})
        # cuts in the sync replies
        for spec in ('stat', 'list', ['pull', {}], ['pull', {'cb': 'rec'}], ['push', {}]):
            for nc in ((1,) if q else (1, 2)):
                out.append({'h': 'ops', 'impl': impl, 'maxdata': 4096, 'ops': [spec], 'cuts': nc})
        # a device FAIL during a multi-WRTE push, all legal orderings: conformance of the host packets only (outcome judged by C10)
        for at in (['send'], ['data', 1], ['wrte', 1], ['wrte', 2], ['done']):
            out.append({'h': 'ops', 'impl': impl, 'maxdata': 4096, 'ops': [['push', {'size': 9000}]], 'fail': at, 'reorder': True, 'judge': False})
            out.append({'h': 'ops', 'impl': impl, 'maxdata': 4096, 'ops': [['push', {'size': 9000}]], 'fail': at, 'reorder': True, 'judge': False, 'cuts': 1, 'max_paths': 200000})
        # a host-initiated close while the device still has data in flight (local sink fails at the j-th write)
        for j in (1, 2):
            out.extend({'h': 'ops', 'impl': impl, 'maxdata': 4096, 'ops': [['pull', {'dest': 'failing', 'fail_at': j, 'recs': [2, 2, 1]}]], 'cuts': 2, 'judge': False, 'eager': e} for e in (False, True))
        # the device closes the stream in the middle of a pull (after a partial sync record)
        for cut in (3, 10, 13):
            out.append({'h': 'ops', 'impl': impl, 'maxdata': 4096, 'ops': [['pull', {'recs': [4, 2]}]], 'cuts': 0, 'judge': False, 'truncate_recv': cut})
        # protocol.txt ordering only: a reply may even precede the OKAY for the request that caused it
        for spec in (['pull', {'cb': 'rec'}], ['pull', {}], 'stat', 'list', ['push', {'size': 5000}]):
            out.append({'h': 'ops', 'impl': impl, 'maxdata': 4096, 'ops': [spec], 'cuts': 1, 'reorder': True, 'spec_order': True, 'max_paths': 200000})
        # OPEN carries a FRESH id: not the id of a stream that was opened but never closed (its OPEN was not answered in time)
        for kind in ('silence', 'eof', 'foreign'):
            out.append({'h': 'after_failed_open', 'impl': impl, 'kind': kind, 'counter': None})
        # several streams open at once (generators stepped alternately): every interleaving, device order free
        out.append({'h': 'interleave', 'judge_results': False, 'impl': impl, 'gens': [[1, 1], [1]], 'pick': True})
        out.append({'h': 'interleave', 'judge_results': False, 'impl': impl, 'gens': [[1, 1], [1, 1]], 'pick': False})
        out.append({'h': 'interleave', 'judge_results': False, 'impl': impl, 'gens': [[1, 1]], 'mid': 'shell', 'pick': True})
        out.append({'h': 'interleave', 'judge_results': False, 'impl': impl, 'gens': [[2, 1]], 'mid': 'stat', 'pick': True})
        # pairs of consecutive operations
        names = ['shell', 'streaming_shell', 'stat', 'list', ['pull', {}], ['push', {}], 'root', 'exec_out']
        pairs = list(itertools.product(range(len(names)), repeat=2))
        if q:
            pairs = [(a, b) for a, b in pairs if (a + 2 * b) % 3 == 0]
        for a, b in pairs:
            out.append({'h': 'ops', 'impl': impl, 'maxdata': 4096, 'ops': [names[a], names[b]], 'cuts': 0})
    return out
