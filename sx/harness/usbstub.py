"""A stand-in for the `usb1` (python-libusb1) module, written from its documentation, for C20.  The module object is created
once per loaded build (usb_transport.py does `import usb1` and opens a context at import time); its behaviour is driven by a
mutable STATE that every harness run resets."""
import types

from .. import core, loader
from ..core import SymBytes, as_sym, norm


class State:
    def __init__(self):
        self.reset()

    def reset(self):
        self.devices = []
        self.calls = []           # (name, args) of every backend call, in order
        self.fault_at = None      # index into calls at which a USBError is raised
        self.fault_exc = None
        self.unplug_at = None     # index into calls from which on EVERY backend call (and the serial number lookup) raises USBErrorNoDevice
        self.unplugged = False
        self.ctx = None
        self.clock = None


def make_usb1():
    m = types.ModuleType('usb1')
    st = State()
    m.STATE = st

    class USBError(Exception):
        def __init__(self, value=None):
            Exception.__init__(self)
            self.value = value

    class USBErrorTimeout(USBError):
        pass

    class USBErrorNotFound(USBError):
        pass

    class USBErrorNoDevice(USBError):
        pass

    class USBErrorBusy(USBError):
        pass

    class USBErrorIO(USBError):
        pass

    class USBErrorPipe(USBError):
        pass

    class USBErrorAccess(USBError):
        pass

    class USBErrorNotSupported(USBError):
        pass

    class USBErrorOverflow(USBError):
        pass

    m.USBErrorAccess, m.USBErrorNotSupported, m.USBErrorOverflow = USBErrorAccess, USBErrorNotSupported, USBErrorOverflow

    m.USBError, m.USBErrorTimeout, m.USBErrorNotFound, m.USBErrorNoDevice, m.USBErrorBusy, m.USBErrorIO, m.USBErrorPipe = (
        USBError, USBErrorTimeout, USBErrorNotFound, USBErrorNoDevice, USBErrorBusy, USBErrorIO, USBErrorPipe)
    m.CLASS_VENDOR_SPEC = 0xFF
    m.ENDPOINT_DIR_MASK = 0x80
    m.USB_ENDPOINT_DIR_MASK = 0x80
    m.ENDPOINT_IN = 0x80
    m.ENDPOINT_OUT = 0x00

    def call(name, *args):
        i = len(st.calls)
        st.calls.append((name, args))
        if st.fault_at is not None and i == st.fault_at:
            raise (st.fault_exc or USBErrorIO)(-1)
        if st.unplug_at is not None and i >= st.unplug_at:
            st.unplugged = True
            raise USBErrorNoDevice(-4)

    class Endpoint:
        def __init__(self, address, maxpacket=512):
            self.address = address
            self.maxpacket = maxpacket

        def getAddress(self):
            return self.address

        def getMaxPacketSize(self):
            return self.maxpacket

    class Setting:
        def __init__(self, number, cls, sub, proto, endpoints):
            self.number, self.cls, self.sub, self.proto, self.endpoints = number, cls, sub, proto, endpoints

        def getClass(self):
            return self.cls

        def getSubClass(self):
            return self.sub

        def getProtocol(self):
            return self.proto

        def getNumber(self):
            return self.number

        def iterEndpoints(self):
            return iter(self.endpoints)

    class Handle:
        def __init__(self, device):
            self.device = device
            self.claimed = []
            self.closed = False
            self.kernel_driver = False

        def kernelDriverActive(self, iface):
            call('kernelDriverActive', iface)
            return self.kernel_driver

        def detachKernelDriver(self, iface):
            call('detachKernelDriver', iface)

        def claimInterface(self, iface):
            call('claimInterface', iface)
            self.claimed.append(iface)

        def releaseInterface(self, iface):
            call('releaseInterface', iface)
            if iface in self.claimed:
                self.claimed.remove(iface)

        def close(self):
            call('close')
            self.closed = True

        def bulkWrite(self, endpoint, data, timeout=0):
            call('bulkWrite', endpoint, len(data), timeout)
            if self.closed:
                raise USBErrorNoDevice(-4)
            return self.device.peer_write(endpoint, data, timeout)

        def bulkRead(self, endpoint, length, timeout=0):
            call('bulkRead', endpoint, length, timeout)
            if self.closed:
                raise USBErrorNoDevice(-4)
            return self.device.peer_read(endpoint, length, timeout)

    class Device:
        def __init__(self, settings, serial='SER123', bus=1, ports=(2, 3)):
            self.settings = settings
            self.serial = serial
            self.bus = bus
            self.ports = list(ports)
            self.handles = []
            self.peer_write = lambda ep, data, t: len(data)
            self.peer_read = lambda ep, n, t: b''

        def iterSettings(self):
            return iter(self.settings)

        def open(self):
            call('open')
            h = Handle(self)
            self.handles.append(h)
            return h

        def getBusNumber(self):
            return self.bus

        def getPortNumberList(self):
            return list(self.ports)

        def getSerialNumber(self):
            if st.unplugged:
                raise USBErrorNoDevice(-4)
            return self.serial

    class USBContext:
        def open(self):
            return self

        def getDeviceIterator(self, skip_on_error=False):
            return iter(list(st.devices))

        def getDeviceList(self, skip_on_error=False):
            return list(st.devices)

        def close(self):
            pass

    m.USBContext = USBContext
    m.Endpoint, m.Setting, m.Device, m.Handle = Endpoint, Setting, Device, Handle
    return m


def load_with_usb(instrumented):
    usb1 = make_usb1()
    names = list(loader.MODULES)
    i = names.index('adb_device')
    names.insert(i, 'transport.usb_transport')
    mods = loader.load(instrumented=instrumented, names=tuple(names), pre_modules={'usb1': usb1})
    mods.usb1 = usb1
    mods.by_name['usb1'] = usb1
    # the module keeps referring to sys.modules['usb1'] only at import time; pin the stub as its global
    mods.usb_transport.__dict__['usb1'] = usb1
    return mods
