"""Operation catalogue: prepare symbolic device state, run one public API operation, check its result.

Shared by C04, C07-C10, C12, C13, C16."""
from .. import core, env, sim
from ..core import SymBytes, SymInt, as_sym, norm, sand, bjoin
from .common import sym_content

U32 = 2 ** 32 - 1


class Op:
    name = ''
    raises = None      # exception class name expected (None = must succeed)

    def __init__(self, **kw):
        self.kw = kw

    def setup(self, ctx, st, w, k):
        """prepare device/vfs state; returns `expected`"""
        return None

    def run(self, w):
        raise NotImplementedError

    def check(self, ctx, w, st, o, expected, tag):
        pass

    def observe(self, o):
        return o.value if o.ok else o.kind()


def _eqb(got, want):
    return as_sym(want) == got


class Shell(Op):
    name = 'shell'
    api = 'shell'
    prefix = b'shell:'

    def setup(self, ctx, st, w, k):
        lens = self.kw.get('lens', (2, 1))
        outs = [(ctx.bytes('out', n) if n <= 32 else sym_content(ctx, 'out', n, [0, 1, n // 2, n - 1])) if n else b'' for n in lens]
        self.cmd = 'cmd%d' % k
        st.shell_outs[self.prefix + self.cmd.encode()] = outs
        return outs

    def run(self, w):
        return w.try_call(self.api, self.cmd, decode=False)

    def check(self, ctx, w, st, o, expected, tag):
        ctx.check(_eqb(o.value, bjoin(expected)), tag + '%s returns the concatenation of the device payloads' % self.api)


class ExecOut(Shell):
    name = 'exec_out'
    api = 'exec_out'
    prefix = b'exec:'


class StreamingShell(Shell):
    name = 'streaming_shell'

    def run(self, w):
        return w.stream('streaming_shell', self.cmd, decode=False)

    def check(self, ctx, w, st, o, expected, tag):
        ok = len(o.value) == len(expected)
        ctx.check(ok, tag + 'streaming_shell yields one item per payload')
        if ok:
            ctx.check(sand(*[_eqb(g, e) for g, e in zip(o.value, expected)]), tag + 'streaming_shell yields the device payloads in order')


class Root(Op):
    name = 'root'

    def setup(self, ctx, st, w, k):
        st.shell_outs[b'root:'] = [b'restarting adbd as root\n']

    def run(self, w):
        return w.try_call('root')

    def check(self, ctx, w, st, o, expected, tag):
        ctx.check(o.value is None, tag + 'root returns None')


class Reboot(Op):
    name = 'reboot'

    def setup(self, ctx, st, w, k):
        st.shell_outs[b'reboot:'] = []

    def run(self, w):
        return w.try_call('reboot')


class Stat(Op):
    name = 'stat'

    def setup(self, ctx, st, w, k):
        self.path = '/dev/f%d' % k
        if self.kw.get('path_len'):
            self.path = '/' + 'p' * (self.kw['path_len'] - 1)
        t = (ctx.int('mode', 0, U32), ctx.int('size', 0, U32), ctx.int('mtime', 0, U32))
        st.fs.stat[self.path.encode()] = t
        return t

    def run(self, w):
        return w.try_call('stat', self.path)

    def check(self, ctx, w, st, o, expected, tag):
        v = tuple(o.value)
        ctx.check(sand(len(v) == 3, *[a == b for a, b in zip(v, expected)]), tag + 'stat returns the exact (mode, size, mtime) of the STAT reply')


class List(Op):
    name = 'list'

    def setup(self, ctx, st, w, k):
        self.path = '/dev/d%d' % k
        if self.kw.get('path_len'):
            self.path = '/' + 'q' * (self.kw['path_len'] - 1)
        ents = []
        for n in self.kw.get('names', (1, 2)):
            name = ctx.bytes('name', n) if n <= 8 else sym_content(ctx, 'name', n, [0, 1, n // 2, n - 1])
            ents.append((ctx.int('mode', 0, U32), ctx.int('size', 0, U32), ctx.int('mtime', 0, U32), name))
        st.fs.listing[self.path.encode()] = ents
        return ents

    def run(self, w):
        return w.try_call('list', self.path)

    def check(self, ctx, w, st, o, expected, tag):
        ok = len(o.value) == len(expected)
        ctx.check(ok, tag + 'list returns one entry per DENT before DONE', detail='%d vs %d' % (len(o.value), len(expected)))
        if ok:
            conj = []
            for f, (mode, size, mtime, name) in zip(o.value, expected):
                conj += [_eqb(f.filename, name), f.mode == mode, f.size == size, f.mtime == mtime]
            ctx.check(sand(*conj), tag + 'list entries carry the exact name bytes, mode, size and mtime, in order')


class FailingSink(env.SymBytesIO):
    """a local destination whose j-th write fails (disk full)"""

    def __init__(self, fail_at):
        super().__init__()
        self.fail_at = fail_at
        self.nwrites = 0

    def write(self, data):
        self.nwrites += 1
        if self.nwrites >= self.fail_at:
            raise OSError(28, 'No space left on device')
        return super().write(data)


class Pull(Op):
    name = 'pull'

    def setup(self, ctx, st, w, k):
        self.path = '/dev/p%d' % k
        recs = [ctx.bytes('rec', n) if n else b'' for n in self.kw.get('recs', (2, 1))]
        st.fs.recv[self.path.encode()] = recs
        self.dest_kind = self.kw.get('dest', 'bytesio')
        self.cb_kind = self.kw.get('cb')
        self.cb_log = []
        total = sum(len(r) for r in recs)
        if self.cb_kind:
            st.fs.stat[self.path.encode()] = (0o100644, total, 5)
        if self.dest_kind == 'bytesio':
            self.dest = env.SymBytesIO()
        elif self.dest_kind == 'failing':
            self.dest = FailingSink(self.kw.get('fail_at', 1))
        else:
            self.dest = '/cwd/pulled%d.bin' % k
            if self.kw.get('preexisting'):
                w.vfs.add_file(self.dest, b'OLD CONTENT THAT MUST BE REPLACED')
        return recs

    def _cb(self):
        if not self.cb_kind:
            return None

        def cb(path, n, total):
            self.cb_log.append((path, n, total))
            if self.cb_kind == 'raise':
                raise RuntimeError('progress callback failed')
        return cb

    def run(self, w):
        return w.try_call('pull', self.path, self.dest, progress_callback=self._cb())

    def result(self, w):
        if self.dest_kind in ('bytesio', 'failing'):
            return self.dest.getvalue()
        return norm(w.vfs.files.get(self.dest, SymBytes()))

    def check(self, ctx, w, st, o, expected, tag):
        if self.dest_kind == 'path':
            ctx.check(self.dest in w.vfs.files, tag + 'pull creates the destination file (also for an empty device file)')
        ctx.check(_eqb(self.result(w), bjoin(expected)), tag + "pull wrote exactly the device file's bytes, in order")
        if self.cb_kind:
            total = sum(len(r) for r in expected)
            ctx.check(sum(c[1] for c in self.cb_log) == total, tag + 'progress callback byte counts sum to the file size', detail=str(self.cb_log))

    def observe(self, o):
        return o.kind()


class Push(Op):
    name = 'push'

    def setup(self, ctx, st, w, k):
        size = self.kw.get('size', 5)
        sympos = self.kw.get('sympos')
        if sympos is None:
            sympos = range(size) if size <= 16 else [0, size - 1]
        self.content = sym_content(ctx, 'file', size, sympos)
        self.kind = self.kw.get('src', 'path')
        self.device_path = self.kw.get('device_path', '/sdcard/dst%d' % k)
        self.mtime = ctx.int('pmtime', 1, U32) if self.kw.get('mtime', 'sym') == 'sym' else self.kw['mtime']
        self.st_mode = self.kw.get('st_mode', 0o100770)
        self.cb_kind = self.kw.get('cb')
        self.cb_log = []
        if self.kind == 'path':
            self.src = '/cwd/src%d.bin' % k
            w.vfs.add_file(self.src, self.content)
        elif self.kind == 'bytesio':
            self.src = env.SymBytesIO(self.content)
        return self.content

    def _cb(self):
        if not self.cb_kind:
            return None

        def cb(path, n, total):
            self.cb_log.append((path, n, total))
            if self.cb_kind == 'raise':
                raise RuntimeError('progress callback failed')
        return cb

    def run(self, w):
        self.npushed0 = None
        return w.try_call('push', self.src, self.device_path, st_mode=self.st_mode, mtime=self.mtime, progress_callback=self._cb())

    def check(self, ctx, w, st, o, expected, tag):
        mine = [p for p in st.fs.pushed if norm(p[0]) == ('%s,%d' % (self.device_path, self.st_mode)).encode()]
        ctx.check(len(mine) == 1, tag + "push sends SEND('<device_path>,<mode>') ... DONE exactly once", detail=str([norm(p[0]) for p in st.fs.pushed]))
        if len(mine) == 1:
            pm, chunks, mtime, complete = mine[0]
            ctx.check(_eqb(bjoin(chunks), self.content), tag + 'DATA chunks concatenate to exactly the source content')
            ctx.check(mtime == self.mtime, tag + 'DONE carries the mtime')

    def observe(self, o):
        return o.kind()


class Open(Op):
    """AdbDevice._open on its own: the stream stays open"""
    name = 'open'

    def setup(self, ctx, st, w, k):
        self.silent = self.kw.get('silent', False)
        self.dest = b'shell:silent%d' % k if self.silent else b'shell:keep%d' % k
        if not self.silent:
            st.shell_outs[self.dest] = [b'x']
        else:
            st.silent_dests = getattr(st, 'silent_dests', set()) | {self.dest}

    def run(self, w):
        return w.try_call('_open', self.dest, None, self.kw.get('read_timeout', 2), None)

    def check(self, ctx, w, st, o, expected, tag):
        pass

    def observe(self, o):
        return o.kind()


class Reconnect(Op):
    """close() followed by connect() (a watchdog that re-establishes the connection)"""
    name = 'reconnect'

    def setup(self, ctx, st, w, k):
        pass

    def run(self, w):
        o = w.try_call('close')
        if not o.ok:
            return o
        return w.try_call('connect')

    def check(self, ctx, w, st, o, expected, tag):
        ctx.check(o.value is True, tag + 'close() followed by connect() returns True against a device that accepts the connection')

    def observe(self, o):
        return o.kind()


CATALOG = {c.name: c for c in (Open, Reconnect, Shell, ExecOut, StreamingShell, Root, Reboot, Stat, List, Pull, Push)}


def make(spec):
    """spec: 'shell' or ['pull', {'dest': 'path'}]"""
    if isinstance(spec, str):
        return CATALOG[spec]()
    return CATALOG[spec[0]](**spec[1])
