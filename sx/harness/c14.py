"""C14 - stream ids are non-zero, 32-bit and unique among live streams (DESIGN.md section 3, C14)."""
from .. import core, sim
from ..core import sand, SymInt
from .common import World, Std

PROPERTY = 'C14'
ASSUMPTIONS = [
    'H14a: the id counter is set directly to a symbolic start value c over [0, 2^32) (arbitrary valid state), then k streams are opened one after the other and kept open; the reactive device echoes whatever local id the OPEN carries',
    'H14b: 2-3 concurrent _open calls under the deterministic scheduler with statement-level preemption inside _open and the `+=` split into load / store (see C06 for the scheduler assumptions)',
    'H14c: one or two _open calls concurrent with close()+connect() from another thread/task (preemption inside _open, close and connect); the open itself may fail, the OPEN packets the device sees are judged; streams of the previous connection are dead once the host sent its next CNXN',
    'a stream kept open across 2^32-1 later opens is outside any bound',
]
BOUNDS = {
    'quick': 'H14a: k = 1..3 sequential opens for ALL start values c in [0, 2^32) (the wrap is one symbolic branch); streams opened through streaming_shell/_open; sync+async. H14b: 2 concurrent opens, c in {0, 2^32-3, 2^32-2, 2^32-1, symbolic}, preemption bound 2 (statement level) . H14c: open || reconnect, c in {5, 2^32-2, symbolic}, preemption bound 2 inside _open/close/connect, bound 1 everywhere; asyncio all orders',
    'thorough': 'k = 1..4; H14b: 3 concurrent opens (statement-level preemption bound 1; asyncio all orders)',
}
U32 = 2 ** 32 - 1


def h_seq(ctx, mods, shape):
    st = Std(ctx, sym_rid=False)
    st.shell_outs[b'shell:'] = [b'x', b'y']
    w = World(ctx, mods, st.dev, impl=shape['impl'])
    o = w.try_call('connect')
    c = ctx.int('counter', 0, U32)
    w.dev._local_id = c
    k = shape['k']
    infos = []
    gens = []
    for i in range(k):
        if shape.get('via') == 'streaming_shell':
            g = w.drv.iterate(w.dev.streaming_shell('cmd%d' % i, decode=False))
            try:
                first = next(g)
            except Exception as e:
                ctx.fail('open #%d failed' % (i + 1), detail=repr(e))
                return
            gens.append(g)
        else:
            try:
                info = w.drv.call(w.dev._open, b'shell:cmd%d' % i, None, 10, None)
            except Exception as e:
                ctx.fail('open #%d failed' % (i + 1), detail=repr(e))
                return
            infos.append(info)
    opens = [p for p in st.dev.decoder.packets if p.cmd == b'OPEN']
    ctx.check(len(opens) == k, 'one OPEN per stream')
    ids = [p.a0 for p in opens]
    ctx.observe('ids', ids)
    for i, x in enumerate(ids):
        ctx.check(sand(x >= 1, x <= U32), 'OPEN #%d uses a local id in [1, 2^32-1]' % (i + 1))
    for i in range(len(ids)):
        for j in range(i + 1, len(ids)):
            ctx.check(ids[i] != ids[j], 'streams %d and %d, open at the same time, have different local ids' % (i + 1, j + 1))
    for i, info in enumerate(infos):
        ctx.check(info.local_id == ids[i], 'the transaction uses the id it announced')
    st.dev.decoder.finish()


from .c06 import h_threads, h_async
from .c11 import Staller


def h_after_failed_open(ctx, mods, shape):
    """an OPEN that the device does not answer in time (silence / end-of-stream / only foreign traffic), then further
    operations: the id of the unanswered stream is not handed out again (the device may still answer it late)"""
    st = Std(ctx, sym_rid=False)
    st.shell_outs[b'shell:'] = [b'x']
    w = World(ctx, mods, st.dev, impl=shape['impl'], default_timeout=1, budget=400)
    w.try_call('connect')
    if shape.get('counter') is not None:
        w.dev._local_id = shape['counter']
    stall = Staller(ctx, st, w, shape['kind'], 0, 2, 1)
    stall.install()
    stall.arm()
    o1 = w.try_call('shell', 'first', decode=False, read_timeout_s=2)
    ctx.observe('first', o1.kind())
    ctx.check(not o1.ok, 'an operation whose OPEN is never answered fails', detail=repr(o1))
    # the device recovers; it answers the old OPEN late (OKAY for the first stream's id) before serving the new stream
    stall.base = None
    st.dev.gate = None
    w.wire.read = type(w.wire).read.__get__(w.wire)
    st.dev.wire = core.SymBytes()
    st.dev.frames = []
    o2 = w.try_call('shell', 'second', decode=False, read_timeout_s=2)
    o3 = w.try_call('shell', 'third', decode=False, read_timeout_s=2)
    ctx.observe('second', o2.kind())
    opens = [p for p in st.dev.decoder.packets if p.cmd == b'OPEN']
    ids = [p.a0 for p in opens]
    ctx.observe('ids', ids)
    ctx.check(len(ids) >= 2, 'every operation sent an OPEN', detail=str(ids))
    for i in range(len(ids)):
        ctx.check(sand(ids[i] >= 1, ids[i] <= U32), 'OPEN uses a local id in [1, 2^32-1]')
        for j in range(i + 1, len(ids)):
            ctx.check(ids[i] != ids[j], 'the id of a stream that was never closed is not handed out again', detail='%r' % (ids,))
    ctx.check(o2.ok and o2.value == b'x' and o3.ok and o3.value == b'x', 'operations after a failed OPEN get their own output', detail='%r %r' % (o2, o3))

HARNESSES = {'seq': h_seq, 'threads': h_threads, 'async': h_async, 'after_failed_open': h_after_failed_open}


def shapes(tier, seed):
    q = tier == 'quick'
    out = []
    for impl in ('sync', 'async'):
        for k in range(1, 4 if q else 5):
            out.append({'h': 'seq', 'impl': impl, 'k': k})
        out.append({'h': 'seq', 'impl': impl, 'k': 2, 'via': 'streaming_shell'})
        for kind in ('silence', 'eof', 'foreign'):
            for c in (None, 2 ** 32 - 2):
                out.append({'h': 'after_failed_open', 'impl': impl, 'kind': kind, 'counter': c})
    # H14b: concurrent opens
    counters = [0, 2 ** 32 - 3, 2 ** 32 - 2, 2 ** 32 - 1, 'sym']
    for c in counters:
        if c in (0, 2 ** 32 - 2):
            for i in range(6):
                out.append({'h': 'threads', 'ops': ['open', 'open'], 'preempt': 2, 'yields': True, 'counter': c, 'max_paths': 200000, 'xpart': [i, 6, 8]})
        else:
            out.append({'h': 'threads', 'ops': ['open', 'open'], 'preempt': 1, 'yields': True, 'counter': c, 'max_paths': 200000})
        out.append({'h': 'async', 'ops': ['open', 'open'], 'counter': c, 'max_paths': 200000})
    # an open that fails (the device never answers) while another stream is opened concurrently and stays live; then two more opens
    for c in (0, 2 ** 32 - 2):
        out.append({'h': 'threads', 'ops': [['open', {'silent': True}], 'open'], 'preempt': 2, 'yields': False, 'counter': c, 'after_opens': 2, 'max_paths': 200000})
        out.append({'h': 'async', 'ops': [['open', {'silent': True}], 'open'], 'counter': c, 'after_opens': 2, 'max_paths': 200000})
    # an open that races with a reconnect (close() then connect() from a watchdog thread): the open may fail, but whatever OPEN
    # reaches the device carries an id in [1, 2^32-1] and collides with no stream of the same connection
    mf = ['open', {'may_fail': True}]
    for c in (5, 2 ** 32 - 2, 'sym'):
        out.append({'h': 'threads', 'ops': [mf, 'reconnect'], 'preempt': 2, 'yields': ['AdbDevice._open', 'AdbDevice.close', 'AdbDevice.connect'], 'counter': c, 'max_paths': 200000})
        out.append({'h': 'async', 'ops': [mf, 'reconnect'], 'counter': c, 'max_paths': 200000})
    out.append({'h': 'threads', 'ops': [mf, 'reconnect'], 'preempt': 1, 'yields': True, 'counter': 5, 'max_paths': 200000})
    out.append({'h': 'threads', 'ops': [mf, mf, 'reconnect'], 'preempt': 1, 'yields': ['AdbDevice._open', 'AdbDevice.close'], 'counter': 2 ** 32 - 2, 'max_paths': 200000})
    if not q:
        for c in (0, 2 ** 32 - 3, 2 ** 32 - 2):
            out.append({'h': 'threads', 'ops': ['open', 'open', 'open'], 'preempt': 1, 'yields': True, 'counter': c, 'max_paths': 400000})
        out.append({'h': 'async', 'ops': ['open', 'open', 'open'], 'counter': 2 ** 32 - 2, 'max_paths': 2000000})
    return out
