"""C03 - inbound packets are reassembled and validated independent of read fragmentation (DESIGN.md section 3, C03)."""
import itertools

from .. import core, sim, env
from ..core import SymBytes, SymInt, as_sym, bjoin, sand, sor
from .common import World, cnxn_packet, transports

PROPERTY = 'C03'
ASSUMPTIONS = [
    'transport = in-memory stub whose bulk_read returns k bytes, k chosen exhaustively in [0, min(requested, pending)] at the fragmentation points (0 = empty read); elsewhere min(requested, pending)',
    'empty reads do not advance the virtual clock (a stall is the subject of C11)',
    'H03c: the checksum field of one WRTE is a symbolic 32-bit value independent of its (symbolic) payload; H03d: the command word of one packet is a symbolic 32-bit value (magic kept consistent)',
    'declared payload lengths are concrete and truthful (a device lying about data_length is outside the statement)',
]
BOUNDS = {
    'quick': 'H03a: L=1..6, every read size symbolic, <=2 empty reads, sync+async; H03b: shell/stat/pull scripts, one short (or empty) read anywhere after connect, or any two inside one packet; H03c: payload 0..3 bytes; H03d: one packet',
    'thorough': 'H03a: L=1..8; H03b: any two short reads anywhere, any three inside one packet; H03c: payload 0..4',
}
VALIDATE_EVERY = {'quick': 10, 'thorough': 4}
LID = 1


def _info(mods):
    return mods.hidden_helpers._AdbTransactionInfo(LID, 77, transport_timeout_s=1, read_timeout_s=10)


def h_readbytes(ctx, mods, shape):
    """unit: _read_bytes_from_device(L) under every fragmentation of the L bytes"""
    L = shape['L']
    data = ctx.bytes('d', L + 3)
    dev = sim.ScriptDevice(ctx, [data[:L], data[L:]])
    state = {'empties': 0, 'got': 0, 'reqs': []}

    def frag(n, avail, idx):
        state['reqs'].append((n, L - state['got']))
        m = min(n, avail)
        lo = 0 if state['empties'] < shape.get('empties', 2) else 1
        k = lo + ctx.choose(m - lo + 1, 'read size')
        if k == 0:
            state['empties'] += 1
        state['got'] += k
        return k

    w = World(ctx, mods, dev, impl=shape['impl'], frag=frag)
    w.wire.connected = True
    io = w.dev._io_manager
    try:
        out = w.drv.call(io._read_bytes_from_device, L, _info(mods))
    except Exception as e:
        ctx.fail('_read_bytes_from_device raised %s' % type(e).__name__, detail=repr(e))
        return
    ctx.observe('out', out)
    ctx.check(as_sym(out) == data[:L], '_read_bytes_from_device returns exactly the first L bytes, in order')
    ctx.check(len(out) == L, 'exactly L bytes')
    bad = [r for r in state['reqs'] if r[0] > r[1]]
    ctx.check(not bad, 'no request exceeds the bytes still missing', detail=str(bad[:3]))
    ctx.check(len(dev.wire) == 3, 'nothing beyond the requested bytes was consumed')


def _script(ctx, op, rid):
    """device byte script for one operation after connect + the expected result"""
    pk = [sim.frame(b'OKAY', rid, LID)]
    if op == 'shell':
        p1, p2 = ctx.bytes('p', 2), ctx.bytes('p', 3)
        pk += [sim.frame(b'WRTE', rid, LID, p1), sim.frame(b'WRTE', rid, LID, p2), sim.frame(b'CLSE', rid, LID)]
        return pk, p1 + p2
    if op == 'stat':
        mode, size, mtime = (ctx.int(n, 0, 2 ** 32 - 1) for n in ('mode', 'size', 'mtime'))
        pk += [sim.frame(b'OKAY', rid, LID), sim.frame(b'WRTE', rid, LID, sim.sync_rec(b'STAT', mode, size, mtime)), sim.frame(b'CLSE', rid, LID)]
        return pk, (mode, size, mtime)
    if op == 'pull':
        c1, c2 = ctx.bytes('c', 3), ctx.bytes('c', 2)
        body = sim.sync_rec(b'DATA', 3, data=c1) + sim.sync_rec(b'DATA', 2, data=c2) + sim.sync_rec(b'DONE', 0)
        pk += [sim.frame(b'OKAY', rid, LID), sim.frame(b'WRTE', rid, LID, body[:13]), sim.frame(b'WRTE', rid, LID, body[13:]), sim.frame(b'CLSE', rid, LID)]
        return pk, c1 + c2
    raise ValueError(op)


def _run_op(ctx, w, op):
    if op == 'shell':
        o = w.try_call('shell', 'ls', decode=False)
        return o, (o.value if o.ok else None)
    if op == 'stat':
        o = w.try_call('stat', '/f')
        return o, (tuple(o.value) if o.ok else None)
    sink = env.SymBytesIO()
    o = w.try_call('pull', '/f', sink)
    return o, sink.getvalue()


def _eq(got, want):
    if isinstance(want, tuple):
        return sand(len(got) == len(want), *[g == x for g, x in zip(got, want)])
    return as_sym(want) == got


def h_fragop(ctx, mods, shape):
    op = shape['op']
    rid = ctx.int('rid', 1, 2 ** 32 - 1)
    pk, want = _script(ctx, op, rid)
    dev = sim.ScriptDevice(ctx, [cnxn_packet()] + pk)
    nframes = len(dev.frames)
    budget = {'n': shape['points']}
    only_packet = shape.get('packet')       # restrict fragmentation to one packet (index among the packets after CNXN)
    state = {'on': False}

    def frag(n, avail, idx):
        m = min(n, avail)
        if not state['on'] or budget['n'] <= 0 or m <= 0:
            return m
        cur_packet = nframes - len(dev.frames) - 1
        if only_packet is not None and cur_packet != only_packet:
            return m
        # alternatives: full read | short read of k in 1..m-1 | empty read
        c = ctx.choose(m + 1, 'fragment')
        if c == 0:
            return m
        budget['n'] -= 1
        return c if c < m else 0

    w = World(ctx, mods, dev, impl=shape['impl'], frag=frag)
    o = w.try_call('connect')
    if not o.ok:
        ctx.fail('connect failed', detail=repr(o.exc))
        return
    state['on'] = True
    o, got = _run_op(ctx, w, op)
    ctx.observe('outcome', o.kind())
    if not o.ok:
        ctx.fail('%s raised %s under fragmented delivery' % (op, o.kind()), detail=repr(o.exc))
        return
    ctx.observe('result', got)
    ctx.check(_eq(got, want), '%s returns the same result as with unfragmented delivery' % op)
    ctx.check(not w.wire.over_reads, 'no read requests more bytes than remain in the current packet', detail=str(w.wire.over_reads[:3]))
    ctx.check(len(dev.wire) == 0, 'the whole device stream was consumed')
    dev.decoder.finish()


def h_checksum(ctx, mods, shape):
    """a WRTE whose checksum field is independent of its payload: delivered iff it matches (non-empty payload)"""
    n = shape['n']
    rid = ctx.int('rid', 1, 2 ** 32 - 1)
    payload = ctx.bytes('p', n) if n else b''
    c = ctx.int('cksum', 0, 2 ** 32 - 1)
    pk = [cnxn_packet(), sim.frame(b'OKAY', rid, LID), sim.frame(b'WRTE', rid, LID, payload, checksum=c), sim.frame(b'CLSE', rid, LID)]
    dev = sim.ScriptDevice(ctx, pk)
    w = World(ctx, mods, dev, impl=shape['impl'])
    o = w.try_call('connect')
    o = w.try_call('shell', 'ls', decode=False)
    s = core.sum_shim(as_sym(payload)) % 2 ** 32
    ctx.observe('outcome', o.kind())
    if o.ok:
        ctx.observe('result', o.value)
        if n:
            ctx.check(c == s, 'a packet is delivered only if its non-empty payload matches its checksum')
        ctx.check(as_sym(payload) == o.value, 'delivered payload is the payload sent')
    else:
        ctx.check(type(o.exc) is mods.exceptions.InvalidChecksumError, 'checksum mismatch raises InvalidChecksumError', detail=o.kind())
        ctx.check(sand(n > 0, c != s), 'InvalidChecksumError only for a genuine mismatch on a non-empty payload')


def h_command(ctx, mods, shape):
    """a packet of a foreign stream with a symbolic command word"""
    rid = ctx.int('rid', 1, 2 ** 32 - 1)
    wv = ctx.int('cmdword', 0, 2 ** 32 - 1)
    p = ctx.bytes('p', 2)
    n = shape['n']
    stray = sim.frame(None, ctx.int('fa0', 1, 2 ** 32 - 1), 9, ctx.bytes('fp', n) if n else b'', cmdword=wv)
    pk = [cnxn_packet(), stray, sim.frame(b'OKAY', rid, LID), sim.frame(b'WRTE', rid, LID, p), sim.frame(b'CLSE', rid, LID)]
    if shape['where'] == 1:
        pk = [pk[0], pk[2], stray, pk[3], pk[4]]
    dev = sim.ScriptDevice(ctx, pk)
    w = World(ctx, mods, dev, impl=shape['impl'])
    w.try_call('connect')
    o = w.try_call('shell', 'ls', decode=False)
    known = sor(*[wv == k for k in sim.KNOWN])
    ctx.observe('outcome', o.kind())
    if o.ok:
        ctx.check(known, 'a packet with an unknown command word is never accepted')
        ctx.check(as_sym(p) == o.value, 'result unaffected by the foreign packet')
    else:
        ctx.check(type(o.exc) is mods.exceptions.InvalidCommandError, 'unknown command word raises InvalidCommandError', detail=repr(o.exc))
        ctx.check(core.snot(known), 'InvalidCommandError only for a command word outside the protocol')


def h_foreign_checksum(ctx, mods, shape):
    """stream 1 (a suspended streaming_shell) gets a WRTE with an arbitrary checksum field while a second command is the
    one reading the wire: the packet is delivered to nobody unless the checksum matches"""
    r1 = ctx.int('rid', 1, 2 ** 32 - 1)
    r2 = ctx.int('rid', 1, 2 ** 32 - 1)
    p1, p2, q = ctx.bytes('p', 2), ctx.bytes('p', 2), ctx.bytes('q', 1)
    c = ctx.int('cksum', 0, 2 ** 32 - 1)
    pk = [cnxn_packet(), sim.frame(b'OKAY', r1, 1), sim.frame(b'WRTE', r1, 1, p1),
          sim.frame(b'WRTE', r1, 1, p2, checksum=c), sim.frame(b'OKAY', r2, 2), sim.frame(b'WRTE', r2, 2, q), sim.frame(b'CLSE', r2, 2),
          sim.frame(b'CLSE', r1, 1)]
    dev = sim.ScriptDevice(ctx, pk)
    w = World(ctx, mods, dev, impl=shape['impl'])
    w.try_call('connect')
    it = w.drv.iterate(w.dev.streaming_shell('a', decode=False))
    try:
        first = next(it)
    except Exception as e:
        ctx.fail('streaming_shell raised %s' % type(e).__name__, detail=repr(e))
        return
    ctx.check(as_sym(p1) == first, 'the first payload is delivered')
    o = w.try_call('shell', 'b', decode=False)
    s = core.sum_shim(as_sym(p2)) % 2 ** 32
    ctx.observe('second', o.kind())
    if not o.ok:
        ctx.check(type(o.exc) is mods.exceptions.InvalidChecksumError, 'the reader that meets the corrupted packet raises InvalidChecksumError', detail=repr(o.exc))
        ctx.check(c != s, 'InvalidChecksumError only for a genuine mismatch')
        return
    ctx.check(c == s, 'a packet read on behalf of another stream is parked only if its payload matches its checksum')
    try:
        second = next(it)
    except Exception as e:
        ctx.observe('gen', type(e).__name__)
        return
    ctx.observe('gen', second)
    ctx.check(c == s, 'a parked packet is delivered to its stream only if its payload matched its checksum')
    ctx.check(as_sym(p2) == second, 'the parked payload is delivered unchanged')


from .c12 import h_fault

HARNESSES = {'fault': h_fault, 'foreign_checksum': h_foreign_checksum, 'readbytes': h_readbytes, 'fragop': h_fragop, 'checksum': h_checksum, 'command': h_command}

NPACKETS = {'shell': 4, 'stat': 4, 'pull': 5}


def shapes(tier, seed):
    q = tier == 'quick'
    out = []
    for impl in ('sync', 'async'):
        for L in range(1, 7 if q else 9):
            out.append({'h': 'readbytes', 'impl': impl, 'L': L, 'empties': 2 if L <= 6 else 1})
        for op in ('shell', 'stat', 'pull'):
            out.append({'h': 'fragop', 'impl': impl, 'op': op, 'points': 1})
            for pkt in range(1, NPACKETS[op] + 1):
                out.append({'h': 'fragop', 'impl': impl, 'op': op, 'points': 2, 'packet': pkt})
            if not q:
                out.append({'h': 'fragop', 'impl': impl, 'op': op, 'points': 2, 'max_paths': 400000})
                for pkt in range(1, NPACKETS[op] + 1):
                    out.append({'h': 'fragop', 'impl': impl, 'op': op, 'points': 3, 'packet': pkt, 'max_paths': 400000})
        for n in range(0, 4 if q else 5):
            out.append({'h': 'checksum', 'impl': impl, 'n': n})
        out.append({'h': 'foreign_checksum', 'impl': impl})
        # a read that times out after part of a header/payload arrived, then connect() again (with/without close()): reassembly starts clean
        for lo in (3, 9, 15, 21):
            for kind in ('timeout', 'eof'):
                out.append({'h': 'fault', 'impl': impl, 'kind': kind, 'range': [lo, lo + 3], 'partial_before': True, 'noclose': True, 'scenario': ['shell', 'stat']})
        for n in (0, 2):
            for where in (0, 1):
                out.append({'h': 'command', 'impl': impl, 'n': n, 'where': where})
    return out
