"""C18 - TCP transports honour the transport contract (DESIGN.md section 3, C18): the real tcp_transport.py and
tcp_transport_async.py executed over contract stubs of socket / select / asyncio streams / async_timeout."""
import asyncio
import types
from fractions import Fraction

from .. import core, sim, env
from ..core import SymBytes, as_sym, norm, sand, bjoin
from .common import World, Std
from . import ops

PROPERTY = 'C18'
ASSUMPTIONS = [
    'TRUSTED BASE: the stubs implement the documented contracts, not a kernel: select() reports readable iff data or EOF is pending, otherwise waits until the next peer chunk arrives or the timeout expires (virtual clock; timeout None with nothing ever arriving = hang); recv(n) returns k bytes, 1 <= k <= min(n, pending), k chosen exhaustively (all k when <= 6 pending, else {1, 2, half, all}); b"" at EOF; send() accepts k in [1, len]; shutdown() may raise OSError',
    'asyncio stubs: StreamReader.read(n) returns 1..n pending bytes; when nothing is pending inside async_timeout.timeout(t) the clock advances by t and asyncio.TimeoutError is raised at the await, which is what the async_timeout library does on expiry (t None = hang); StreamWriter.drain() may time out the same way; coroutines are stepped by hand, so code that needs a running event loop (e.g. asyncio.shield) fails loudly',
    'real sockets, blocking-mode subtleties and socket buffer sizes are outside the claim',
]
BOUNDS = {
    'quick': 'peer stream of 5 symbolic bytes in 1..3 chunks with pauses; request sizes 1..6; timeouts symbolic reals or None; close twice / shutdown raising / reconnect; a device session (connect, shell, stat, pull, push) through TcpTransport and TcpTransportAsync against the device simulator',
    'thorough': 'peer stream of 8 bytes in 1..4 chunks, two consecutive timeouts',
}
VALIDATE_EVERY = {'quick': 8, 'thorough': 8}


def reps(m):
    if m <= 6:
        return list(range(1, m + 1))
    return sorted({1, 2, m // 2, m})


class Peer:
    """the remote end of one TCP connection: bytes it has written (arrived = readable now; later = arrive after a pause)"""

    def __init__(self, ctx, clock):
        self.ctx = ctx
        self.clock = clock
        self.arrived = SymBytes()
        self.later = []          # list of (delay, chunk)
        self.eof = False
        self.received = SymBytes()
        self.on_data = None      # callable(chunk): e.g. feed a device simulator
        self.pull = None         # callable() -> more bytes for `arrived` (device simulator)
        self.delivered = SymBytes()

    def pending(self):
        if not len(self.arrived) and self.pull is not None:
            more = self.pull()
            if more is not None and len(more):
                self.arrived = self.arrived + more
        return len(self.arrived)

    def wait_readable(self, timeout):
        """-> True if readable now or within `timeout` (advancing the virtual clock)"""
        if self.pending() or self.eof:
            return True
        if self.later:
            delay, chunk = self.later[0]
            if timeout is None or bool(delay <= timeout):
                self.clock.advance(delay)
                self.later.pop(0)
                self.arrived = self.arrived + chunk
                return True
            self.later[0] = (delay - timeout, chunk)
            self.clock.advance(timeout)
            return False
        if timeout is None:
            raise core.Budget('blocks forever: waiting for data with timeout None and a silent peer')
        self.clock.advance(timeout)
        return False

    def take(self, n):
        m = min(n, len(self.arrived))
        r = reps(m)
        if self.frag_budget is not None:
            if self.frag_budget <= 0:
                r = [m]
            else:
                r = [m] + [x for x in r if x != m]
        k = r[self.ctx.choose(len(r), 'bytes returned by recv/read')] if len(r) > 1 else r[0]
        if self.frag_budget is not None and k < m:
            self.frag_budget -= 1
        out = self.arrived[:k]
        self.arrived = self.arrived[k:]
        self.delivered = self.delivered + out
        return norm(out)

    def accept(self, data, short=True):
        data = as_sym(data)
        L = len(data)
        k = L
        if short and L > 1 and self.short_budget > 0:
            r = reps(L)
            if self.k_only:
                r = sorted({x for x in self.k_only if x < L} | {L})
            k = r[self.ctx.choose(len(r), 'bytes accepted by send')]
            if k < L:
                self.short_budget -= 1
        acc = data[:k]
        self.received = self.received + acc
        if self.on_data is not None:
            self.on_data(acc)
        return k

    short_budget = 0
    k_only = None
    frag_budget = None      # None: every recv may be short; k: at most k short recvs


class Net:
    """stub `socket` + `select` modules, and the asyncio stream stubs, all over Peer objects"""

    def __init__(self, ctx, clock, peer_factory):
        self.ctx = ctx
        self.clock = clock
        self.peer_factory = peer_factory
        self.sockets = []
        self.connect_error = None
        self.shutdown_raises = False
        net = self

        class Sock:
            def __init__(self, peer, timeout):
                self.peer = peer
                self.timeout = timeout
                self.blocking = True
                self.closed = False
                self.shut = False
                self.nclose = 0

            def setblocking(self, flag):
                self.blocking = bool(flag)

            def settimeout(self, t):
                self.timeout = t

            def fileno(self):
                return 3 + net.sockets.index(self)

            def recv(self, n):
                if self.closed:
                    raise OSError(9, 'Bad file descriptor')
                if not self.peer.pending():
                    if self.peer.eof:
                        return b''
                    if not self.blocking:
                        raise BlockingIOError(11, 'Resource temporarily unavailable')
                    if not self.peer.wait_readable(self.timeout):
                        raise TimeoutError('timed out')
                    if not self.peer.pending():
                        return b''
                return self.peer.take(n)

            def send(self, data):
                if self.closed:
                    raise OSError(9, 'Bad file descriptor')
                return self.peer.accept(data)

            def sendall(self, data):
                self.peer.accept(data, short=False)

            def shutdown(self, how):
                if net.shutdown_raises:
                    raise OSError(107, 'Transport endpoint is not connected')
                self.shut = True

            def close(self):
                self.nclose += 1
                self.closed = True

        self.Sock = Sock
        sm = types.SimpleNamespace()
        sm.SHUT_RDWR = 2
        sm.error = OSError
        sm.timeout = TimeoutError

        def create_connection(addr, timeout=None, *a, **k):
            if net.connect_error is not None:
                raise net.connect_error
            s = Sock(net.peer_factory(), timeout)
            net.sockets.append(s)
            return s
        sm.create_connection = create_connection
        sm.gethostname = lambda: 'stubhost'
        self.socket = sm

        sel = types.SimpleNamespace()

        def select(r, w_, x, timeout=None):
            rr, ww = [], []
            for s in w_:
                if s is None or getattr(s, 'closed', True):
                    raise ValueError('file descriptor cannot be a negative integer (-1)')
                ww.append(s)
            for s in r:
                if s is None or getattr(s, 'closed', True):
                    raise ValueError('file descriptor cannot be a negative integer (-1)')
                if s.peer.wait_readable(timeout):
                    rr.append(s)
            return rr, ww, []
        sel.select = select
        self.select = sel

        # --- asyncio streams
        self.cur_timeout = [None]

        class Timeout:
            def __init__(self, t):
                self.t = t

            async def __aenter__(self):
                self.prev = net.cur_timeout[0]
                net.cur_timeout[0] = ('t', self.t)
                return self

            async def __aexit__(self, *a):
                net.cur_timeout[0] = self.prev
                return False

        at = types.SimpleNamespace()
        at.timeout = lambda t: Timeout(t)
        self.async_timeout = at

        class Reader:
            def __init__(self, peer):
                self.peer = peer

            async def read(self, n=-1):
                cur = net.cur_timeout[0]
                t = cur[1] if cur else None
                if not self.peer.pending():
                    if self.peer.eof:
                        return b''
                    if not self.peer.wait_readable(t):
                        raise asyncio.TimeoutError()
                    if not self.peer.pending():
                        return b''
                return self.peer.take(n)

        class Writer:
            def __init__(self, peer):
                self.peer = peer
                self.closed = False
                self.nclose = 0
                self.stalled = False

            def write(self, data):
                if self.closed:
                    raise OSError(9, 'Bad file descriptor')
                self.peer.accept(data, short=False)

            async def drain(self):
                if self.stalled:
                    cur = net.cur_timeout[0]
                    t = cur[1] if cur else None
                    if t is None:
                        raise core.Budget('blocks forever: drain() with timeout None and a peer that does not read')
                    net.clock.advance(t)
                    raise asyncio.TimeoutError()

            def close(self):
                self.nclose += 1
                self.closed = True

            async def wait_closed(self):
                if net.shutdown_raises:
                    raise OSError(107, 'Transport endpoint is not connected')

            def is_closing(self):
                return self.closed

        self.writers = []

        async def open_connection(host, port, *a, **k):
            if net.connect_error is not None:
                raise net.connect_error
            p = net.peer_factory()
            wr = Writer(p)
            net.writers.append(wr)
            return Reader(p), wr
        am = types.SimpleNamespace(**{k: getattr(asyncio, k) for k in ('TimeoutError', 'CancelledError', 'wait_for', 'shield', 'sleep', 'ensure_future', 'get_event_loop', 'Lock')})
        am.open_connection = open_connection
        self.asyncio = am

    def install(self, mods):
        mods.tcp_transport.__dict__['socket'] = self.socket
        mods.tcp_transport.__dict__['select'] = self.select
        mods.tcp_transport_async.__dict__['asyncio'] = self.asyncio
        mods.tcp_transport_async.__dict__['async_timeout'] = self.async_timeout


def _transport(mods, impl):
    if impl == 'sync':
        return mods.tcp_transport.TcpTransport('host', 5555), env.SyncDriver()
    return mods.tcp_transport_async.TcpTransportAsync('host', 5555), env.AsyncDriver()


def h_reads(ctx, mods, shape):
    """successive bulk_reads return the peer's bytes in order, never more than requested; a quiet peer gives a timeout error
    not before the timeout; later data is still delivered"""
    clock = env.Clock(0)
    n = shape['nbytes']
    stream = ctx.bytes('peer', n)
    peers = []

    def peer_factory():
        p = Peer(ctx, clock)
        pieces = shape['chunks']
        pos = 0
        for i, ln in enumerate(pieces):
            chunk = as_sym(stream)[pos:pos + ln]
            pos += ln
            if i == 0 and not shape.get('first_late'):
                p.arrived = p.arrived + chunk
            else:
                p.later.append((ctx.real('pause', Fraction(1, 100), 5), chunk))
        peers.append(p)
        return p

    net = Net(ctx, clock, peer_factory)
    net.install(mods)
    tr, drv = _transport(mods, shape['impl'])
    exc_t = mods.exceptions.TcpTimeoutException
    tmo = None if shape.get('t') == 'none' else ctx.real('t', Fraction(1, 100), 5)
    if tmo is not None:
        for p_ in peers:
            pass
    drv.call(tr.connect, shape['connect_t'] if 'connect_t' in shape else tmo)
    if tmo is not None:
        # a pause is at most two timeouts long, so every chunk arrives after at most two timed-out reads
        for (delay, chunk) in peers[-1].later:
            ctx.assume(delay <= 2 * tmo)
    got = SymBytes()
    ntimeouts = 0
    guard = 0
    while len(got) < n and guard < 40:
        guard += 1
        req = 1 + ctx.choose(shape['maxreq'], 'request size') if shape.get('vary_req') else shape['maxreq']
        t0 = clock.now
        try:
            d = drv.call(tr.bulk_read, req, tmo)
        except exc_t:
            ntimeouts += 1
            ctx.check(tmo is not None, 'a read with timeout None never raises a timeout')
            if tmo is not None:
                ctx.check(clock.now - t0 >= tmo, 'TcpTimeoutException is not raised before the timeout elapsed')
            if ntimeouts > 3 * len(shape['chunks']) + 1:
                ctx.fail('the peer sent everything but reads keep timing out')
                return
            continue
        except Exception as e:
            ctx.fail('bulk_read raised %s' % type(e).__name__, detail=repr(e))
            return
        ctx.check(len(d) <= req, 'bulk_read returns at most the requested number of bytes', detail='%d > %d' % (len(d), req))
        if len(d) == 0:
            ctx.fail('bulk_read returned nothing although the peer has not closed')
            return
        got = got + as_sym(d)
    ctx.observe('got', got)
    ctx.observe('timeouts', ntimeouts)
    ctx.check(len(got) == n and got == as_sym(stream), "successive reads return exactly the peer's bytes: in order, no loss, no duplication")
    # nothing more to read: a further read times out (and loses nothing)
    if tmo is not None:
        t0 = clock.now
        try:
            d = drv.call(tr.bulk_read, 4, tmo)
            ctx.fail('bulk_read returned data the peer never sent', detail=repr(d))
        except exc_t:
            ctx.check(clock.now - t0 >= tmo, 'a read with nothing to read raises TcpTimeoutException after (about) the timeout')
        except Exception as e:
            ctx.fail('bulk_read raised %s instead of TcpTimeoutException' % type(e).__name__, detail=repr(e))
        # data that arrives after a timeout is still delivered
        late = ctx.bytes('late', 2)
        peers[-1].later.append((Fraction(1, 100), as_sym(late)))
        try:
            d = drv.call(tr.bulk_read, 2, tmo)
            ctx.check(as_sym(d) == as_sym(late)[:len(d)] and len(d) >= 1, 'data arriving after a timed-out read is delivered by the next read')
        except Exception as e:
            ctx.fail('a read after a timed-out read raised %s' % type(e).__name__, detail=repr(e))


def h_lifecycle(ctx, mods, shape):
    """close is idempotent (also when shutdown/wait_closed raises OSError) and a closed transport can connect again"""
    clock = env.Clock(0)
    created = []
    greetings = {}
    state = {}

    def peer_factory():
        p = Peer(ctx, clock)
        p.arrived = as_sym(ctx.bytes('greeting', 5))
        greetings[id(p)] = p.arrived      # more than one read consumes: the rest is still unread at close()
        created.append(p)
        return p

    net = Net(ctx, clock, peer_factory)
    net.install(mods)
    tr, drv = _transport(mods, shape['impl'])
    seq = shape['seq']
    for step in seq:
        try:
            if step == 'connect':
                n0 = len(created)
                drv.call(tr.connect, 1)
                ctx.check(len(created) == n0 + 1, 'connect() opens a new connection', detail='%d connections' % len(created))
            elif step in ('close', 'close_oserror'):
                net.shutdown_raises = step == 'close_oserror'
                drv.call(tr.close)
                net.shutdown_raises = False
                for s in net.sockets:
                    ctx.check(s.closed, 'close() closes the socket')
                for wr in net.writers:
                    ctx.check(wr.closed, 'close() closes the stream writer')
            elif step == 'read':
                d = drv.call(tr.bulk_read, 2, 1)
                nread = state.setdefault(id(created[-1]), 0)
                ctx.check(len(d) >= 1 and len(d) <= 2, 'bulk_read returns 1..2 bytes')
                ctx.check(as_sym(d) == greetings[id(created[-1])][nread:nread + len(d)], "a read after (re)connect returns the current peer's bytes, from the start of that connection")
                state[id(created[-1])] = nread + len(d)
            elif step == 'write_none':
                k = drv.call(tr.bulk_write, b'ping', None)
                ctx.check(k == 4 and created[-1].received[-4:] == b'ping', 'bulk_write without a timeout delivers to the current peer')
            elif step == 'write':
                k = drv.call(tr.bulk_write, b'ping', 1)
                ctx.check(k == 4 and created[-1].received == b'ping', 'bulk_write delivers to the current peer and returns the count')
        except Exception as e:
            ctx.fail('%s raised %s (sequence %s)' % (step, type(e).__name__, '>'.join(seq)), detail=repr(e))
            return
    ctx.observe('connections', len(created))


def h_session(ctx, mods, shape):
    """a whole device session through the TCP transport over the stubs gives the same results as over the in-memory transport"""
    clock = env.Clock(0)
    st = Std(ctx, sym_rid=True)
    dev = st.dev

    def peer_factory():
        p = Peer(ctx, clock)
        dev.on_connect()

        def pull():
            if dev.pending():
                return dev.take(dev.pending())
            return None
        p.pull = pull
        p.on_data = dev.host_wrote
        p.frag_budget = shape.get('frag_budget', 1)
        p.short_budget = shape.get('nshort', 0)
        return p

    net = Net(ctx, clock, peer_factory)
    net.install(mods)
    # World wires clock/vfs; then swap its transport for the real TCP transport
    w = World(ctx, mods, dev, impl=shape['impl'], clock=clock, default_timeout=1)
    tr, drv = _transport(mods, shape['impl'])
    if shape['impl'] == 'sync':
        w.dev = mods.adb_device.AdbDevice(tr, default_transport_timeout_s=1, banner=b'host')
    else:
        w.dev = mods.adb_device_async.AdbDeviceAsync(tr, default_transport_timeout_s=1, banner=b'host')
    o = w.try_call('connect')
    if not o.ok:
        ctx.fail('connect over the TCP transport failed', detail=repr(o.exc))
        return
    for k, spec in enumerate(shape['ops']):
        op = ops.make(spec)
        exp = op.setup(ctx, st, w, k)
        o = op.run(w)
        ctx.observe(op.name, op.observe(o))
        if not o.ok:
            ctx.fail('%s over the TCP transport raised %s' % (op.name, o.kind()), detail=repr(o.exc))
            return
        op.check(ctx, w, st, o, exp, 'over TCP, %s: ' % op.name)
    dev.decoder.finish()
    o = w.try_call('close')
    ctx.check(o.ok, 'close() over the TCP transport completes')


def h_write(ctx, mods, shape):
    """bulk_write: returns the number of bytes the socket accepted (sync: a single send) / everything after drain (async);
    under _AdbIOManager._send the peer receives the whole message or the call raises (C15 H15b)"""
    clock = env.Clock(0)
    peers = []

    def peer_factory():
        p = Peer(ctx, clock)
        p.short_budget = shape.get('nshort', 1)
        p.k_only = shape.get('k_only')
        peers.append(p)
        return p

    net = Net(ctx, clock, peer_factory)
    net.install(mods)
    tr, drv = _transport(mods, shape['impl'])
    drv.call(tr.connect, 1)
    if shape.get('stalled') and net.writers:
        net.writers[-1].stalled = True
    payload = ctx.bytes('msg', shape['n'])
    if shape['impl'] == 'sync':
        io = mods.adb_device._AdbIOManager(tr)
    else:
        io = mods.adb_device_async._AdbIOManagerAsync(tr)
    msg = mods.adb_message.AdbMessage(mods.constants.WRTE, 1, 2, payload)
    info = mods.hidden_helpers._AdbTransactionInfo(1, 2, 1, 10, None)
    mods.set_global('time', clock)
    try:
        drv.call(io._send, msg, info)
    except Exception as e:
        ctx.observe('raised', type(e).__name__)
        ctx.check(isinstance(e, (mods.exceptions.TcpTimeoutException, mods.exceptions.AdbTimeoutError)), 'a send that cannot complete raises a timeout error', detail=repr(e))
        return
    got = peers[-1].received
    ctx.observe('peer', got)
    want = as_sym(msg.pack()) + as_sym(payload)
    ctx.check(len(got) == len(want) and got == want, 'the peer receives every byte of the message, in order and without gaps, however many bytes send() accepts per call')


HARNESSES = {'reads': h_reads, 'lifecycle': h_lifecycle, 'session': h_session, 'write': h_write}


def shapes(tier, seed):
    q = tier == 'quick'
    out = []
    for impl in ('sync', 'async'):
        n = 5 if q else 8
        chunkings = [[n], [2, n - 2], [1, 2, n - 3]] + ([] if q else [[1, 1, 2, n - 4]])
        for ch in chunkings:
            for t in ('sym', 'none'):
                if t == 'none' and len(ch) > 1:
                    pass
                out.append({'h': 'reads', 'impl': impl, 'nbytes': n, 'chunks': ch, 'maxreq': 6, 'vary_req': False, 't': t})
            if len(ch) <= 2:
                out.append({'h': 'reads', 'impl': impl, 'nbytes': n, 'chunks': ch, 'maxreq': 3, 'vary_req': True, 't': 'sym', 'max_paths': 200000})
            out.append({'h': 'reads', 'impl': impl, 'nbytes': n, 'chunks': ch, 'maxreq': 6, 'first_late': True, 't': 'sym'})
            # connected with a timeout (non-blocking socket), then read without one: must wait for the peer
            out.append({'h': 'reads', 'impl': impl, 'nbytes': n, 'chunks': ch, 'maxreq': 6, 'first_late': True, 't': 'none', 'connect_t': 1})
        for seq in (['connect', 'read', 'close', 'close'], ['connect', 'close_oserror', 'close'], ['close', 'connect', 'read', 'write'],
                    ['connect', 'read', 'close', 'connect', 'read', 'write'], ['connect', 'close_oserror', 'connect', 'read', 'write', 'close', 'close'],
                    ['connect', 'write', 'close_oserror', 'connect', 'write'], ['connect', 'write_none', 'read', 'close']):
            out.append({'h': 'lifecycle', 'impl': impl, 'seq': seq})
        out.append({'h': 'session', 'impl': impl, 'ops': ['shell', 'stat', ['pull', {}], ['push', {'size': 5000}]], 'frag_budget': 1})
        out.append({'h': 'session', 'impl': impl, 'ops': ['shell', ['push', {'size': 5000}]], 'frag_budget': 0, 'nshort': 1})
        for n_ in (0, 3):
            out.append({'h': 'write', 'impl': impl, 'n': n_, 'nshort': 1})
            out.append({'h': 'write', 'impl': impl, 'n': n_, 'nshort': 2})
        out.append({'h': 'write', 'impl': impl, 'n': 3, 'nshort': 0, 'stalled': True})
        out.append({'h': 'write', 'impl': impl, 'n': 40, 'nshort': 3, 'max_paths': 200000})
        out.append({'h': 'write', 'impl': impl, 'n': 40, 'nshort': 4, 'max_paths': 400000, 'k_only': [1, 2]})
    return out
