"""C19 - buffered packets are kept per stream in FIFO order with correct wildcard lookup (DESIGN.md section 3, C19)."""
from .. import core
from ..core import SymInt

PROPERTY = 'C19'
ASSUMPTIONS = [
    'the real _AdbPacketStore (its dict literals become SymDict, so a symbolic id used as a key is compared for equality with the stored keys) is driven directly; every id is a fresh symbolic int over [0, 2^32), so aliasing (same remote id under two local ids, real 0 vs. fallback 0, wildcard hits) is decided by the solver',
    'reference model = plain list of (arg0, arg1, cmd, tag) in arrival order, executed under the same path condition (its comparisons fork exhaustively)',
    'put(CLSE) is only issued for a pair that currently has an entry (the statement leaves the other case open: C06/K1)',
    'operation sequences are finite choices, explored exhaustively up to the stated length after a symbolic pre-load',
]
LETTERS = ['put_new', 'put_again', 'put_clse', 'find', 'find_w0', 'find_w1', 'find_ww', 'findz', 'findz_w0', 'findz_w1', 'get', 'clear', 'clear_entry', 'clear_all', 'len', 'contains']
BOUNDS = {
    'quick': 'all sequences of length 3 over %d letters %s; all sequences put_new,{put_new|put_again|put_clse},x,y with x,y from the lookup/retrieval alphabet; followed by a final audit that drains the store against the model' % (len(LETTERS), LETTERS),
    'thorough': 'all sequences of length 4 starting with put_new over the full alphabet; length 5 put_new,{put_new|put_again|put_clse},x,y,z over the lookup/retrieval alphabet',
}
VALIDATE_EVERY = {'quick': 60, 'thorough': 200}
U32 = 2 ** 32 - 1
WRTE, OKAY, CLSE = b'WRTE', b'OKAY', b'CLSE'


class Model:
    def __init__(self):
        self.packets = []    # (a0, a1, cmd, tag) in arrival order
        self.entries = []    # pairs that have an entry (possibly drained)

    def has_entry(self, a0, a1):
        for (x, y) in self.entries:
            if x == a0 and y == a1:
                return True
        return False

    def put(self, a0, a1, cmd, tag):
        if not self.has_entry(a0, a1):
            self.entries.append((a0, a1))
        self.packets.append((a0, a1, cmd, tag))

    def pending_pairs(self):
        out = []
        for (a0, a1, _, _) in self.packets:
            if not any((x == a0 and y == a1) for (x, y) in out):
                out.append((a0, a1))
        return out

    def forget(self, a0, a1):
        self.packets = [p for p in self.packets if not (p[0] == a0 and p[1] == a1)]
        self.entries = [e for e in self.entries if not (e[0] == a0 and e[1] == a1)]

    def oldest(self, a0, a1):
        for p in self.packets:
            if p[0] == a0 and p[1] == a1:
                return p
        return None

    def pop_oldest(self, a0, a1):
        p = self.oldest(a0, a1)
        self.packets = [q for q in self.packets if q is not p]
        return p


def _match(pair, q0, q1, zeros):
    a0, a1 = pair
    ok0 = q0 is None or bool(a0 == q0) or (zeros and bool(a0 == 0))
    ok1 = q1 is None or bool(a1 == q1) or (zeros and bool(a1 == 0))
    return ok0 and ok1


def h_store(ctx, mods, shape):
    hh = mods.hidden_helpers
    store = hh._AdbPacketStore()
    model = Model()
    tagn = [0]

    def fresh():
        return ctx.int('id', 0, U32)

    def do_put(a0, a1, cmd):
        tag = b't%d' % tagn[0]
        tagn[0] += 1
        store.put(a0, a1, cmd, tag)
        model.put(a0, a1, cmd, tag)

    for _ in range(shape['preload']):
        do_put(fresh(), fresh(), WRTE)
    last_find = [None]
    seq = list(shape['prefix'])
    letters = shape['letters']
    k = 0
    while k < shape['length']:
        if k < len(seq):
            L = seq[k]
        else:
            L = letters[ctx.choose(len(letters), 'op')]
            seq.append(L)
        k += 1
        tag = 'step %d %s: ' % (k, L)
        if L == 'put_new':
            do_put(fresh(), fresh(), [WRTE, OKAY][ctx.choose(2, 'cmd')] if shape.get('cmds') else WRTE)
        elif L in ('put_again', 'put_clse', 'clear_entry'):
            if not model.entries:
                continue
            a0, a1 = model.entries[ctx.choose(len(model.entries), 'entry')]
            if L == 'put_again':
                do_put(a0, a1, WRTE)
            elif L == 'put_clse':
                do_put(a0, a1, CLSE)
            else:
                store.clear(a0, a1)
                model.forget(a0, a1)
        elif L.startswith('find'):
            zeros = L.startswith('findz')
            q0 = None if L.endswith(('_w0', '_ww')) else fresh()
            q1 = None if L.endswith(('_w1', '_ww')) else fresh()
            res = store.find_allow_zeros(q0, q1) if zeros else store.find(q0, q1)
            pend = model.pending_pairs()
            matching = [p for p in pend if _match(p, q0, q1, zeros)]
            if res is None:
                ctx.check(not matching, tag + 'a lookup returns nothing only if no matching pair has a pending packet')
                last_find[0] = None
            else:
                r0, r1 = res
                ctx.check(any(bool(p[0] == r0) and bool(p[1] == r1) for p in matching), tag + 'a lookup returns a pair that matches the query and currently has a pending packet')
                last_find[0] = (r0, r1)
        elif L == 'get':
            if last_find[0] is None:
                continue
            r0, r1 = last_find[0]
            want = model.oldest(r0, r1)
            if want is None:
                last_find[0] = None
                continue
            cmd, a0, a1, data = store.get(r0, r1)
            ctx.check(data == want[3] and cmd == want[2], tag + 'get returns the oldest packet of exactly that pair (FIFO per pair)', detail='%r vs %r' % (data, want[3]))
            ctx.check(bool(a0 == r0) and bool(a1 == r1), tag + 'get reports the pair it was asked for')
            model.pop_oldest(r0, r1)
            if want[2] == CLSE:
                model.forget(r0, r1)
            last_find[0] = None
        elif L == 'clear':
            a0, a1 = fresh(), fresh()
            store.clear(a0, a1)
            model.forget(a0, a1)
        elif L == 'clear_all':
            store.clear_all()
            model.packets = []
            model.entries = []
            ctx.check(len(store) == 0, tag + 'clear_all forgets everything')
        elif L == 'len':
            ctx.check(len(store) == len(model.pending_pairs()), tag + 'len == number of pairs with pending packets', detail='%d vs %d' % (len(store), len(model.pending_pairs())))
        elif L == 'contains':
            q0, q1 = fresh(), fresh()
            res = (q0, q1) in store
            ctx.check(res == any(_match(p, q0, q1, False) for p in model.pending_pairs()), tag + 'contains agrees with the model')
    # final audit: drain everything through wildcard lookups and compare with the model, pair by pair
    ctx.check(len(store) == len(model.pending_pairs()), 'final: len == number of pairs with pending packets')
    guard = 0
    while guard < 12:
        guard += 1
        res = store.find(None, None)
        pend = model.pending_pairs()
        if res is None:
            ctx.check(not pend, 'final: the store is empty only if the model is')
            break
        if not pend:
            ctx.fail('final: the store still offers a pair although nothing is pending')
            break
        r0, r1 = res
        want = model.oldest(r0, r1)
        if want is None:
            ctx.fail('final: the store offers a pair that has no pending packet')
            break
        cmd, a0, a1, data = store.get(r0, r1)
        ctx.check(data == want[3], 'final: packets come out in arrival order per pair')
        model.pop_oldest(r0, r1)
        if want[2] == CLSE:
            model.forget(r0, r1)
    ctx.observe('seq', '>'.join(seq))


def h_deep(ctx, mods, shape):
    """many packets parked for one pair (and a second pair interleaved) come out complete and in arrival order"""
    hh = mods.hidden_helpers
    store = hh._AdbPacketStore()
    a0, a1 = ctx.int('id', 0, U32), ctx.int('id', 0, U32)
    b0, b1 = ctx.int('id', 0, U32), ctx.int('id', 0, U32)
    ctx.assume(core.sor(a0 != b0, a1 != b1))
    n = shape['n']
    for i in range(n):
        store.put(a0, a1, WRTE, b'a%d' % i)
        if i % 3 == 0:
            store.put(b0, b1, WRTE, b'b%d' % i)
    store.put(a0, a1, CLSE, b'')
    got = []
    for i in range(n + 1):
        r = store.find(a0, a1)
        if r is None:
            break
        got.append(store.get(r[0], r[1]))
    ctx.check([g[3] for g in got] == [b'a%d' % i for i in range(n)] + [b''], 'all %d parked packets of a pair are retrievable, in arrival order, followed by its CLSE' % n, detail=str([g[3] for g in got][:5]))
    ctx.check(store.find(a0, a1) is None, 'retrieving the CLSE forgot the pair')
    ctx.check(len(store) == 1, 'the other pair is still pending')
    gb = []
    while store.find(b0, b1) is not None:
        gb.append(store.get(b0, b1)[3])
        if len(gb) > n:
            break
    ctx.check(gb == [b'b%d' % i for i in range(0, n, 3)], 'the interleaved pair kept its own packets in order')
    ctx.observe('n', len(got))


HARNESSES = {'store': h_store, 'deep': h_deep}


RED = ['find', 'findz', 'findz_w0', 'findz_w1', 'find_ww', 'get', 'clear_entry', 'put_clse', 'put_again', 'put_new', 'len']


def shapes(tier, seed):
    q = tier == 'quick'
    out = []
    for a in LETTERS:
        out.append({'h': 'store', 'preload': 0, 'letters': LETTERS, 'prefix': [a], 'length': 3, 'max_paths': 400000})
    # deeper: two packets parked, then two more operations from the lookup/retrieval alphabet
    for b in ('put_new', 'put_again', 'put_clse'):
        for c in RED:
            out.append({'h': 'store', 'preload': 0, 'letters': RED, 'prefix': ['put_new', b, c], 'length': 4, 'max_paths': 400000})
    # a drained pair (entry exists, queue empty), then two more operations
    for f in ('find_ww', 'findz'):
        for c in RED:
            out.append({'h': 'store', 'preload': 0, 'letters': RED, 'prefix': ['put_new', f, 'get', c], 'length': 5, 'max_paths': 400000})
    if not q:
        for a in LETTERS:
            for b in LETTERS:
                out.append({'h': 'store', 'preload': 0, 'letters': LETTERS, 'prefix': ['put_new', a, b], 'length': 4, 'max_paths': 1000000})
        for b in ('put_new', 'put_again', 'put_clse'):
            for c in RED:
                for d in RED:
                    out.append({'h': 'store', 'preload': 0, 'letters': RED, 'prefix': ['put_new', b, c, d], 'length': 5, 'max_paths': 1000000})
    out.append({'h': 'store', 'preload': 0, 'letters': LETTERS, 'prefix': ['put_new', 'findz'], 'length': 3, 'cmds': True})
    for n in ((5, 40, 300) if q else (5, 40, 300, 2000)):
        out.append({'h': 'deep', 'n': n})
    return out
