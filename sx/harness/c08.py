"""C08 - pull writes exactly the device file, for every device chunking (DESIGN.md section 3, C08)."""
import itertools

from .. import core, sim, env
from ..core import as_sym, bjoin, sand
from .common import World, Std, cuts, split_at, sym_content
from . import ops

PROPERTY = 'C08'
ASSUMPTIONS = [
    'reactive device simulator: RECV is answered with DATA records (contents symbolic) + DONE; the sync byte stream is split into WRTE payloads at cut positions chosen exhaustively (anywhere, including inside 8-byte headers)',
    'remote id symbolic; destination = SymBytesIO (a genuine BytesIO subclass) or a path in the virtual file system; progress callback none / recording / raising',
    'large cases: concrete position-dependent pattern with sparse symbolic bytes',
]
BOUNDS = {
    'quick': 'record length sequences (<=3 records, lengths 0..4) x <=2 cuts (all placements) for the base configuration; destinations/callbacks/fragmented reads with <=1 cut; one 64 KiB-record / 200 KiB file; sync+async',
    'thorough': '<=3 cuts for <=2 records, all record sequences over {0,1,2,3,4}^<=3 with 2 cuts; 1.5 MiB file in 64 KiB records over 4 KiB / 1 MiB WRTEs',
}
VALIDATE_EVERY = {'quick': 12, 'thorough': 6}


def h_pull(ctx, mods, shape):
    mon = sim.Monitor(ctx)
    ncuts = shape.get('cuts', 0)

    def packetize(b, kind):
        if kind != 'RECV':
            return [b]
        if shape.get('wrte_size'):
            n = shape['wrte_size']
            return [b[i:i + n] for i in range(0, len(b), n)]
        if not ncuts or len(b) < 2:
            return [b]
        return split_at(b, cuts(ctx, len(b), min(ncuts, len(b) - 1), 'WRTE boundary', part=shape.get('part')))

    reorder = (lambda s_, c: ctx.choose(len(c), 'ack/data order')) if shape.get('spec_order') else None
    st = Std(ctx, maxdata=shape.get('maxdata', 4096), monitor=mon, packetize=packetize, reorder=reorder)
    st.dev.strict_causality = not shape.get('spec_order')
    F = shape.get('frag', 0)
    state = {'base': None}

    def frag(n, avail, idx):
        if state['base'] is None or idx - state['base'] >= 40 or F <= 0:
            return min(n, avail)
        m = min(n, avail)
        c = ctx.choose(m, 'read size') if state.get('left', F) > 0 else 0
        if c:
            state['left'] = state.get('left', F) - 1
            return c
        return m

    w = World(ctx, mods, st.dev, impl=shape['impl'], frag=frag if F else None)
    o = w.try_call('connect')
    if not o.ok:
        ctx.fail('connect failed', detail=repr(o.exc))
        return
    state['base'] = w.wire.reads
    op = ops.Pull(recs=shape['recs'], dest=shape.get('dest', 'bytesio'), cb=shape.get('cb'), preexisting=shape.get('preexisting'))
    exp = op.setup(ctx, st, w, 0)
    if shape.get('big'):
        total, rec = shape['big']
        content = sym_content(ctx, 'big', total, [0, 1, rec - 1, rec, rec + 1, total - 1])
        exp = [content[i:i + rec] for i in range(0, total, rec)]
        st.fs.recv[op.path.encode()] = exp
        if op.cb_kind:
            st.fs.stat[op.path.encode()] = (0o100644, total, 5)
    o = op.run(w)
    ctx.observe('outcome', o.kind())
    if not o.ok:
        ctx.fail('pull raised %s' % o.kind(), detail=repr(o.exc))
        return
    ctx.observe('dest', op.result(w))
    op.check(ctx, w, st, o, exp, '')
    if op.dest_kind == 'bytesio':
        sizes = op.dest.write_sizes
        ctx.check(sizes == [len(r) for r in exp], 'one write per DATA record, in order', detail=str(sizes[:6]))
    # what the host asked for
    svc = [x for x in st.sync_services if any(r[0] == b'RECV' for r in x.records)][-1]
    ctx.check([r[0] for r in svc.records] == [b'RECV'] and core.norm(svc.records[0][1]) == op.path.encode(), 'the host sent exactly RECV <device_path>', detail=str(svc.records[:2]))
    mon.finish(expect_closed=True)
    st.dev.decoder.finish()


def h_pull_after_abort(ctx, mods, shape):
    """a pull that was aborted by a local write error must not influence a later pull on the same device object"""
    ncuts = shape.get('cuts', 1)

    def packetize(b, kind):
        if kind != 'RECV' or len(b) < 2 or not ncuts:
            return [b]
        return split_at(b, cuts(ctx, len(b), min(ncuts, len(b) - 1), 'WRTE boundary', part=shape.get('part')))

    st = Std(ctx, maxdata=4096, packetize=packetize)
    st.dev.eager = bool(shape.get('eager'))
    w = World(ctx, mods, st.dev, impl=shape['impl'], default_timeout=1)
    w.try_call('connect')
    op1 = ops.Pull(recs=shape['recs1'], dest='failing', fail_at=shape.get('fail_at', 1))
    op1.setup(ctx, st, w, 0)
    o1 = op1.run(w)
    ctx.observe('first', o1.kind())
    if shape.get('reconnect'):
        w.try_call('close')
        w.try_call('connect')
    op2 = ops.Pull(recs=shape['recs2'], dest=shape.get('dest', 'bytesio'))
    exp = op2.setup(ctx, st, w, 1)
    o2 = op2.run(w)
    ctx.observe('second', o2.kind())
    if not o2.ok:
        ctx.fail('the pull after an aborted pull raised %s' % o2.kind(), detail=repr(o2.exc))
        return
    op2.check(ctx, w, st, o2, exp, 'pull after an aborted pull: ')


from .c06 import h_async, h_threads

HARNESSES = {'pull': h_pull, 'pull_after_abort': h_pull_after_abort, 'async': h_async, 'threads': h_threads}


def shapes(tier, seed):
    q = tier == 'quick'
    out = []
    base_recs = [[], [0], [1], [3], [2, 2], [0, 3], [4, 1], [1, 1, 1], [3, 0, 2]]
    if not q:
        base_recs = [list(t) for k in range(0, 4) for t in itertools.product(range(0, 5), repeat=k) if sum(t) <= 8]
    for impl in ('sync', 'async'):
        for recs in base_recs:
            for nc in (0, 1, 2):
                nparts = 4 if (nc == 2 and sum(recs) + 8 * len(recs) >= 20) else 1
                for i in range(nparts):
                    out.append({'h': 'pull', 'impl': impl, 'recs': recs, 'cuts': nc, 'part': [i, nparts]})
        if not q:
            for recs in ([3], [2, 2], [0, 3]):
                out.append({'h': 'pull', 'impl': impl, 'recs': recs, 'cuts': 3, 'max_paths': 400000})
        for recs in ([2, 1], [0], []):
            for dest in ('bytesio', 'path'):
                for cb in (None, 'rec', 'raise'):
                    out.append({'h': 'pull', 'impl': impl, 'recs': recs, 'cuts': 1, 'dest': dest, 'cb': cb})
        for recs in ([], [0], [2]):
            out.append({'h': 'pull', 'impl': impl, 'recs': recs, 'cuts': 0, 'dest': 'path', 'preexisting': True})
        # protocol.txt ordering only: the device's DATA packets may even precede its OKAY for the RECV request
        for recs in ([2, 1], [3, 0, 2]):
            out.append({'h': 'pull', 'impl': impl, 'recs': recs, 'cuts': 2, 'spec_order': True, 'max_paths': 200000, 'part': [0, 6]})
            out.append({'h': 'pull', 'impl': impl, 'recs': recs, 'cuts': 1, 'spec_order': True, 'max_paths': 200000})
        for recs in ([2, 1], [3]):
            for i in range(4):
                out.append({'h': 'pull', 'impl': impl, 'recs': recs, 'cuts': 1, 'frag': 1, 'part': [i, 4]})
        for reconnect in (False, True):
            for eager in (False, True):
                out.append({'h': 'pull_after_abort', 'impl': impl, 'recs1': [3, 2], 'recs2': [2, 1], 'cuts': 1, 'reconnect': reconnect, 'eager': eager})
                out.append({'h': 'pull_after_abort', 'impl': impl, 'recs1': [2, 2, 1], 'recs2': [1], 'cuts': 0, 'fail_at': 2, 'reconnect': reconnect, 'eager': eager})
        out.append({'h': 'pull', 'impl': impl, 'recs': [], 'big': [200000, 65536], 'wrte_size': 4096})
        out.append({'h': 'pull', 'impl': impl, 'recs': [], 'big': [200000, 65536], 'wrte_size': 65536 + 8, 'maxdata': 1 << 20, 'cb': 'rec'})
        out.append({'h': 'pull', 'impl': impl, 'recs': [], 'big': [70000, 1000], 'wrte_size': 4093})
        if not q:
            out.append({'h': 'pull', 'impl': impl, 'recs': [], 'big': [1572864, 65536], 'wrte_size': 4096})
            out.append({'h': 'pull', 'impl': impl, 'recs': [], 'big': [1572864, 65536], 'wrte_size': 1 << 20, 'maxdata': 1 << 20})
    # a pull whose reply arrives in several packets while another stream is read concurrently (K1 timeouts are C06's)
    ss = ['streaming_shell', {'lens': [1]}]
    out.append({'h': 'async', 'ops': [['pull', {'recs': [3, 2]}], ss], 'wrte_size': 7, 'ignore_k1': True, 'max_paths': 200000})
    out.append({'h': 'threads', 'ops': [['pull', {'recs': [2]}], ss], 'wrte_size': 7, 'preempt': 1, 'yields': False, 'ignore_k1': True, 'max_paths': 200000})
    return out
