"""C09 - list and stat return exactly the device's directory entries and metadata (DESIGN.md section 3, C09)."""
from .. import core, sim
from ..core import as_sym, sand
from .common import World, Std, cuts, split_at
from . import ops

PROPERTY = 'C09'
ASSUMPTIONS = [
    'reactive device simulator: LIST answered with DENT(mode,size,mtime,namelen,name)* DONE, STAT with STAT(mode,size,mtime); all four numeric fields symbolic over [0, 2^32) (namelen tied to the concrete name length), name bytes symbolic',
    'the reply byte stream is split into WRTE payloads at cut positions chosen exhaustively; remote id symbolic',
]
BOUNDS = {
    'quick': 'list: 0..3 entries, names of 1..3 bytes, <=2 cuts (all placements; 1 cut for 3 entries); one 255-byte name; a 150-entry listing (>4 KiB) in 1000-byte / 4096-byte / single WRTEs; stat: <=2 cuts (all placements); sync+async',
    'thorough': 'list: 0..5 entries, <=3 cuts for <=2 entries; 300-entry listing; stat: <=3 cuts',
}
VALIDATE_EVERY = {'quick': 10, 'thorough': 4}


def _world(ctx, mods, shape):
    mon = sim.Monitor(ctx)
    ncuts = shape.get('cuts', 0)

    def packetize(b, kind):
        if kind not in ('LIST', 'STAT'):
            return [b]
        if shape.get('wrte_size'):
            n = shape['wrte_size']
            return [b[i:i + n] for i in range(0, len(b), n)]
        if not ncuts or len(b) < 2:
            return [b]
        return split_at(b, cuts(ctx, len(b), min(ncuts, len(b) - 1), 'WRTE boundary', part=shape.get('part')))

    reorder = (lambda s_, c: ctx.choose(len(c), 'ack/data order')) if shape.get('spec_order') else None
    st = Std(ctx, maxdata=4096, monitor=mon, packetize=packetize, reorder=reorder)
    st.dev.strict_causality = not shape.get('spec_order')
    F = shape.get('frag', 0)
    fstate = {'on': False, 'left': F}

    def frag(n, avail, idx):
        m = min(n, avail)
        if not fstate['on'] or fstate['left'] <= 0 or m <= 1:
            return m
        c = ctx.choose(m, 'read size')       # 0 = full read, k = short read of k bytes
        if c:
            fstate['left'] -= 1
            return c
        return m

    w = World(ctx, mods, st.dev, impl=shape['impl'], frag=frag if F else None, default_timeout=1)
    st.fstate = fstate
    o = w.try_call('connect')
    fstate['on'] = True
    return mon, st, w


def h_list(ctx, mods, shape):
    mon, st, w = _world(ctx, mods, shape)
    op = ops.List(names=shape['names'])
    exp = op.setup(ctx, st, w, 0)
    if shape.get('many'):
        n = shape['many']
        exp = []
        for i in range(n):
            if i % 37 == 0:
                exp.append((ctx.int('mode', 0, 2 ** 32 - 1), ctx.int('size', 0, 2 ** 32 - 1), ctx.int('mtime', 0, 2 ** 32 - 1), ('file%04d.bin' % i).encode()))
            else:
                exp.append((0o100644 + i, i * 1000003 % 2 ** 32, 2 ** 31 + i, ('file%04d.bin' % i).encode()))
        st.fs.listing[op.path.encode()] = exp
    o = op.run(w)
    ctx.observe('outcome', o.kind())
    if not o.ok:
        ctx.fail('list raised %s' % o.kind(), detail=repr(o.exc))
        return
    ctx.observe('n', len(o.value))
    ctx.observe('first', [tuple(o.value[0])] if o.value else [])
    op.check(ctx, w, st, o, exp, '')
    svc = st.sync_services[-1]
    ctx.check([r[0] for r in svc.records] == [b'LIST'] and core.norm(svc.records[0][1]) == op.path.encode(), 'the host sent exactly LIST <device_path>')
    mon.finish(expect_closed=True)
    st.dev.decoder.finish()


def h_stat(ctx, mods, shape):
    mon, st, w = _world(ctx, mods, shape)
    op = ops.Stat()
    exp = op.setup(ctx, st, w, 0)
    o = op.run(w)
    ctx.observe('outcome', o.kind())
    if not o.ok:
        ctx.fail('stat raised %s' % o.kind(), detail=repr(o.exc))
        return
    ctx.observe('value', tuple(o.value))
    op.check(ctx, w, st, o, exp, '')
    svc = st.sync_services[-1]
    ctx.check([r[0] for r in svc.records] == [b'STAT'] and core.norm(svc.records[0][1]) == op.path.encode(), 'the host sent exactly STAT <device_path>')
    mon.finish(expect_closed=True)
    st.dev.decoder.finish()


from .c06 import h_async, h_threads

def h_after_abort(ctx, mods, shape):
    """a list/stat that was cut short by the device (timeout in the middle of a record) must not influence the next one"""
    mon, st, w = _world(ctx, mods, shape)
    st.truncate_reply = (shape['cut'], 'silence')
    first = ops.List(names=[2, 1]) if shape['first'] == 'list' else ops.Stat()
    first.setup(ctx, st, w, 0)
    o1 = first.run(w)
    ctx.observe('first', o1.kind())
    ctx.check(not o1.ok, 'a reply that stops in the middle of a record makes the operation fail', detail=repr(o1))
    if shape.get('reconnect'):
        w.try_call('close')
        w.try_call('connect')
    second = ops.List(names=[1, 2]) if shape['second'] == 'list' else ops.Stat()
    exp = second.setup(ctx, st, w, 1)
    o2 = second.run(w)
    ctx.observe('second', o2.kind())
    if not o2.ok:
        ctx.fail('the %s after an aborted %s raised %s' % (shape['second'], shape['first'], o2.kind()), detail=repr(o2.exc))
        return
    second.check(ctx, w, st, o2, exp, 'after an aborted %s: ' % shape['first'])


HARNESSES = {'after_abort': h_after_abort, 'list': h_list, 'stat': h_stat, 'async': h_async, 'threads': h_threads}


def shapes(tier, seed):
    q = tier == 'quick'
    out = []
    for impl in ('sync', 'async'):
        name_sets = [[], [1], [3], [2, 1], [1, 3]] + ([[1, 2, 1]] if q else [[1, 2, 1], [3, 3, 3], [1, 1, 1, 1], [2, 1, 1, 1, 1]])
        for names in name_sets:
            for nc in (0, 1, 2):
                if nc == 2 and q and (len(names) >= 3 or names == [1, 3]):
                    continue
                nparts = 6 if (nc == 2 and len(names) >= 2) else (2 if nc == 2 and names else 1)
                for i in range(nparts):
                    out.append({'h': 'list', 'impl': impl, 'names': names, 'cuts': nc, 'max_paths': 400000, 'part': [i, nparts]})
        if not q:
            for names in ([1], [2, 1]):
                out.append({'h': 'list', 'impl': impl, 'names': names, 'cuts': 3, 'max_paths': 400000})
        out.append({'h': 'list', 'impl': impl, 'names': [255], 'cuts': 1})
        # names of 4..8 symbolic bytes (long enough to look like a sync id such as FAIL / DENT / DONE), every cut position
        for names in ([4], [5, 1], [8]):
            out.append({'h': 'list', 'impl': impl, 'names': names, 'cuts': 1, 'max_paths': 400000})
        for ws in (1000, 4096, 1 << 20, 20, 21):
            out.append({'h': 'list', 'impl': impl, 'names': [], 'many': 150 if q else 300, 'wrte_size': ws})
        for nc in ((0, 1, 2) if q else (0, 1, 2, 3)):
            out.append({'h': 'stat', 'impl': impl, 'cuts': nc})
        # fragmented transport reads (one short read anywhere, incl. inside the 24-byte packet headers)
        out.append({'h': 'stat', 'impl': impl, 'cuts': 0, 'frag': 1, 'max_paths': 200000})
        out.append({'h': 'list', 'impl': impl, 'names': [2, 1], 'cuts': 0, 'frag': 1, 'max_paths': 200000})
        out.append({'h': 'list', 'impl': impl, 'names': [1], 'cuts': 0, 'frag': 2, 'max_paths': 200000})
        if not q:
            out.append({'h': 'stat', 'impl': impl, 'cuts': 1, 'frag': 1, 'max_paths': 400000})
            for i in range(6):
                out.append({'h': 'list', 'impl': impl, 'names': [1], 'cuts': 1, 'frag': 1, 'max_paths': 400000, 'part': [i, 6]})
            for i in range(8):
                out.append({'h': 'list', 'impl': impl, 'names': [2, 1], 'cuts': 1, 'frag': 1, 'max_paths': 400000, 'part': [i, 8]})
        # an operation cut short by the device, then another one on the same object
        for first, second, cut in (('list', 'list', 27), ('list', 'list', 5), ('stat', 'stat', 9), ('list', 'stat', 30), ('stat', 'list', 3)):
            for rc in (False, True):
                out.append({'h': 'after_abort', 'impl': impl, 'first': first, 'second': second, 'cut': cut, 'reconnect': rc})
        # protocol.txt ordering only: reply packets may even precede the OKAY for the request
        out.append({'h': 'stat', 'impl': impl, 'cuts': 2, 'spec_order': True, 'max_paths': 200000})
        out.append({'h': 'list', 'impl': impl, 'names': [2, 1], 'cuts': 1, 'spec_order': True, 'max_paths': 200000})
        out.append({'h': 'list', 'impl': impl, 'names': [1], 'cuts': 2, 'spec_order': True, 'max_paths': 200000, 'part': [0, 4]})
    # a listing that arrives in several packets while another stream is being read concurrently (a timeout due to K1 is C06's)
    out.append({'h': 'async', 'ops': [['list', {'names': [1, 1, 1]}], ['streaming_shell', {'lens': [1]}]], 'wrte_size': 24, 'ignore_k1': True, 'max_paths': 200000})
    out.append({'h': 'threads', 'ops': [['list', {'names': [1, 1]}], ['streaming_shell', {'lens': [1]}]], 'wrte_size': 24, 'preempt': 1, 'yields': False, 'ignore_k1': True, 'max_paths': 200000})
    return out
