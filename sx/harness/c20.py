"""C20 - USB transport honours the transport contract on a conforming libusb backend (DESIGN.md section 3, C20)."""
from fractions import Fraction

from .. import core, sim, env
from ..core import SymBytes, SymInt, SymReal, as_sym, norm, sand, sor
from .common import World, Std
from . import ops

PROPERTY = 'C20'
ASSUMPTIONS = [
    'TRUSTED BASE: the `usb1` module is a stub written from the python-libusb1 documentation (context, device, settings, endpoints, handle with claim tracking, bulkRead/bulkWrite that may transfer short, USBError subclasses); real libusb is not installed in this sandbox and is outside the claim',
    'timeouts are symbolic reals (or None); floats are modelled as reals, so the millisecond conversion is asserted exactly as int(1000*t) in real arithmetic (floating-point rounding of t*1000 is outside)',
    'a USBError is injected at every backend call index by enumeration; the ADB interface is the setting with class 0xFF / subclass 0x42 / protocol 0x01 among other settings',
]
BOUNDS = {
    'quick': 'connect/bulk_write/bulk_read/close scripts with symbolic timeouts and default timeout, read sizes 1..4 with short transfers, USBError at every call index, device unplugged at every call index (every later libusb call, the serial-number lookup included, raises USBErrorNoDevice), use after close, close twice; AdbDeviceUsb session (connect, shell, stat, pull, push) through find_adb with serial / port path / first device',
    'thorough': 'same with 3 candidate devices and larger reads',
}
VARIANT = 'usb'
IN_EP, OUT_EP = 0x81, 0x02
ADB_IFACE = 3


def _devices(mods, ctx, n_other=1):
    u = mods.usb1
    out = []
    for i in range(n_other):
        out.append(u.Device([u.Setting(0, 0x08, 0x06, 0x50, [u.Endpoint(0x83), u.Endpoint(0x04)])], serial='OTHER%d' % i, bus=1, ports=(1, i)))
    adb = u.Device([u.Setting(0, 0xFF, 0x01, 0x01, [u.Endpoint(0x85), u.Endpoint(0x06)]),
                    u.Setting(ADB_IFACE, 0xFF, 0x42, 0x01, [u.Endpoint(IN_EP), u.Endpoint(OUT_EP)])], serial='ADB0', bus=2, ports=(4, 1))
    out.append(adb)
    return out, adb


def _ms(t):
    x = t * 1000
    if isinstance(x, SymReal):
        return x.trunc()
    return int(x)


def h_unit(ctx, mods, shape):
    u = mods.usb1
    u.STATE.reset()
    devs, adb = _devices(mods, ctx)
    u.STATE.devices = devs
    UT = mods.usb_transport.UsbTransport
    exc = mods.exceptions
    default = None if shape.get('default') == 'none' else ctx.real('default_t', 0, 60)
    t = None if shape.get('t') == 'none' else ctx.real('t', 0, 60)
    tr = UT.find_adb(default_transport_timeout_s=default)
    ctx.check(tr._device is adb, 'find_adb picks the device that has the ADB interface (class 0xFF, subclass 0x42, protocol 0x01)')
    NIN = shape.get('inbox', 4)
    inbox = ctx.bytes('in', NIN) if NIN <= 16 else __import__('sx.harness.common', fromlist=['sym_content']).sym_content(ctx, 'in', NIN, [0, 1, NIN // 2, NIN - 1])
    state = {'pos': 0, 'out': SymBytes(), 'ms': [], 'last_k': 0}

    def peer_read(ep, n, ms):
        state['ms'].append(('r', ep, n, ms))
        avail = NIN - state['pos']
        if avail <= 0:
            raise u.USBErrorTimeout(-7)
        m = min(n, avail)
        k = 1 + ctx.choose(m, 'bytes transferred') if shape.get('short') else m
        r = as_sym(inbox)[state['pos']:state['pos'] + k]
        state['pos'] += k
        return bytearray(r.base) if not r.ov else core.SymByteArray(r.base, r.ov)

    def peer_write(ep, data, ms):
        k = len(data)
        if shape.get('short_out') and len(data) > 1:
            k = 1 + ctx.choose(len(data), 'bytes the OUT transfer accepted')
        state['ms'].append(('w', ep, len(data), ms))
        state['out'] = state['out'] + as_sym(data)[:k]
        state['last_k'] = k
        return k

    adb.peer_read, adb.peer_write = peer_read, peer_write
    if shape.get('fault') is not None:
        u.STATE.fault_at = shape['fault']
        u.STATE.fault_exc = [u.USBErrorIO, u.USBErrorNoDevice, u.USBErrorTimeout][shape.get('fault_kind', 0)]
    if shape.get('unplug') is not None:
        u.STATE.unplug_at = shape['unplug']
    faulty = lambda: u.STATE.fault_at is not None or u.STATE.unplugged
    want_ms = _ms(t) if t is not None else _ms(default if default is not None else 10)
    steps = shape['steps']
    closed = True
    got = SymBytes()
    sent = SymBytes()
    for step in steps:
        ncalls = len(u.STATE.calls)
        raised = True
        try:
            if step == 'connect':
                tr.connect(t)
                closed = False
                h = adb.handles[-1]
                ctx.check(h.claimed == [ADB_IFACE], 'connect opens the device and claims the interface number of the ADB setting', detail=str(h.claimed))
            elif step == 'write':
                data = ctx.bytes('out', 3)
                r = tr.bulk_write(data, t)
                if closed is None:
                    sent = sent + as_sym(data)
                    continue
                if closed:
                    ctx.fail('bulk_write on a closed transport did not raise UsbWriteFailedError')
                    continue
                last = state['ms'][-1]
                sent = sent + as_sym(data)[:state['last_k']]
                ctx.check(last[0] == 'w' and last[1] == OUT_EP, 'writes go to the OUT endpoint', detail=hex(last[1]))
                ctx.check(last[3] == want_ms, 'the timeout is passed to libusb in milliseconds (the default when none is given)')
                ctx.check(r == state['last_k'], 'bulk_write returns the number of bytes libusb transferred', detail='%r vs %r' % (r, state['last_k']))
            elif step.startswith('read'):
                n = int(step[4:] or 4)
                r = tr.bulk_read(n, t)
                if closed is None:
                    got = got + as_sym(r)
                    continue
                if closed:
                    ctx.fail('bulk_read on a closed transport did not raise UsbReadFailedError')
                    continue
                last = state['ms'][-1]
                ctx.check(last[0] == 'r' and last[1] == IN_EP and last[2] == n, 'reads come from the IN endpoint with the requested size', detail=str(last[:3]))
                ctx.check(last[3] == want_ms, 'the timeout is passed to libusb in milliseconds (the default when none is given)')
                ctx.check(len(r) <= n, 'a read never returns more than requested')
                ctx.check(isinstance(r, bytes) or isinstance(r, SymBytes), 'bulk_read returns bytes')
                got = got + as_sym(r)
            elif step == 'close':
                tr.close()
                closed = True
                for h in adb.handles:
                    ctx.check(h.closed or faulty(), 'close() closes the libusb handle')
            raised = False
        except exc.UsbReadFailedError as e:
            ctx.observe(step, 'UsbReadFailedError')
            ok = step.startswith('read') and (closed or closed is None or faulty() or state['pos'] >= NIN)
            ctx.check(ok, 'UsbReadFailedError only from a read that libusb failed or on a closed transport', detail=step)
        except exc.UsbWriteFailedError as e:
            ctx.observe(step, 'UsbWriteFailedError')
            ctx.check(step == 'write' and (closed or closed is None or faulty()), 'UsbWriteFailedError only from a write that libusb failed or on a closed transport', detail=step)
        except u.USBError as e:
            if step in ('connect',):
                # libusb refused while connecting (e.g. the interface could not be claimed): connect() raised; whether the
                # half-open handle is usable afterwards is not specified, so nothing is asserted until the next close()
                ctx.observe(step, 'USBError')
                closed = None
                continue
            ctx.fail('a raw libusb error escaped from %s instead of UsbReadFailedError/UsbWriteFailedError' % step, detail=repr(e))
        except Exception as e:
            ctx.fail('%s raised %s' % (step, type(e).__name__), detail=repr(e))
            return
        if step == 'close' and u.STATE.unplugged:
            closed = True
        if u.STATE.unplugged and not raised and step != 'close' and step != 'connect' and len(u.STATE.calls) > ncalls:
            ctx.fail('%s returned normally although every libusb call fails with USBErrorNoDevice (device unplugged)' % step)
        if step == 'close' and u.STATE.fault_at is not None and ncalls <= u.STATE.fault_at < len(u.STATE.calls):
            # libusb failed inside close(): the transport must still count as closed afterwards
            closed = True
    ctx.observe('got', got)
    ctx.check(got == as_sym(inbox)[:len(got)], 'reads return the IN endpoint data in order')
    ctx.check(state['out'] == sent, 'writes deliver exactly the data, in order')


def h_session(ctx, mods, shape):
    u = mods.usb1
    u.STATE.reset()
    devs, adb = _devices(mods, ctx, n_other=shape.get('others', 1))
    u.STATE.devices = devs
    st = Std(ctx, sym_rid=True)
    dev = st.dev
    clock = env.Clock(0)

    def peer_read(ep, n, ms):
        if not dev.pending():
            clock.advance(Fraction(ms, 1000) if not isinstance(ms, SymInt) else ms / 1000)
            raise u.USBErrorTimeout(-7)
        # a libusb IN transfer returns whatever is queued, up to the requested length (it may span ADB packets)
        k = min(n, len(dev.wire))
        r = dev.take(k)
        return bytearray(r.base) if not r.ov else core.SymByteArray(r.base, r.ov)

    budget = {'n': shape.get('nshort', 0)}

    def peer_write(ep, data, ms):
        k = len(data)
        if budget['n'] > 0 and len(data) > 1 and ctx.choose(2, 'short OUT transfer?'):
            budget['n'] -= 1
            k = len(data) // 2
        dev.host_wrote(as_sym(data)[:k])
        return k

    adb.peer_read, adb.peer_write = peer_read, peer_write
    dev.eager = bool(shape.get('eager'))
    w = World(ctx, mods, dev, impl='sync', clock=clock, default_timeout=1)
    kw = {}
    if shape.get('by') == 'serial':
        kw['serial'] = 'ADB0'
    elif shape.get('by') == 'port':
        kw['port_path'] = [2, 4, 1]
    try:
        w.dev = mods.adb_device.AdbDeviceUsb(default_transport_timeout_s=1, banner=b'host', **kw)
    except Exception as e:
        ctx.fail('AdbDeviceUsb() raised %s' % type(e).__name__, detail=repr(e))
        return
    ctx.check(w.dev._io_manager._transport._device is adb, 'AdbDeviceUsb talks to the ADB device')
    orig_open = adb.open

    def open_():
        h = orig_open()
        dev.on_connect()
        return h
    adb.open = open_
    if shape.get('unplug') is not None:
        u.STATE.unplug_at = shape['unplug']
    o = w.try_call('connect')
    if not o.ok:
        if u.STATE.unplugged:
            return        # unplugged while connecting: what connect() raises then is not part of the contract
        ctx.fail('connect over USB failed', detail=repr(o.exc))
        return
    unplugged_failure = False
    for k, spec in enumerate(shape['ops']):
        op = ops.make(spec)
        exp = op.setup(ctx, st, w, k)
        o = op.run(w)
        ctx.observe(op.name, op.observe(o))
        if not o.ok and u.STATE.unplugged:
            ctx.check(isinstance(o.exc, (mods.exceptions.UsbReadFailedError, mods.exceptions.UsbWriteFailedError)),
                      'once the device is unplugged an operation ends with UsbReadFailedError / UsbWriteFailedError', detail=repr(o.exc))
            unplugged_failure = True
            break
        if not o.ok:
            ctx.fail('%s over USB raised %s' % (op.name, o.kind()), detail=repr(o.exc))
            return
        op.check(ctx, w, st, o, exp, 'over USB, %s: ' % op.name)
    if not unplugged_failure:
        dev.decoder.finish()
    o = w.try_call('close')
    ctx.check(o.ok, 'close() over USB completes')
    ctx.check(all(h.closed for h in adb.handles) or u.STATE.unplugged, 'the libusb handle is closed')
    r = w.try_call('shell', 'id')
    ctx.check(not r.ok, 'operations after close() raise')


HARNESSES = {'unit': h_unit, 'session': h_session}


def shapes(tier, seed):
    out = []
    base = ['connect', 'write', 'read2', 'read4', 'close', 'close', 'write', 'read4']
    for t in ('sym', 'none'):
        for d in ('sym', 'none'):
            out.append({'h': 'unit', 'variant': 'usb', 'steps': base, 't': t, 'default': d})
            out.append({'h': 'unit', 'variant': 'usb', 'steps': ['connect', 'read3', 'read3', 'write', 'close'], 't': t, 'default': d, 'short': True})
    out.append({'h': 'unit', 'variant': 'usb', 'steps': ['write', 'read4', 'close', 'connect', 'write', 'close'], 't': 'sym', 'default': 'sym'})
    # a libusb error at every backend call index
    for f in range(0, 12):
        for kind in (0, 1):
            out.append({'h': 'unit', 'variant': 'usb', 'steps': ['connect', 'write', 'read2', 'close', 'write', 'read4', 'close', 'connect', 'write', 'close'], 't': 'sym', 'default': 'none', 'fault': f, 'fault_kind': kind})
    # the cable is pulled at backend call index k: from then on every libusb call (the serial number lookup included) fails
    for k in range(0, 10):
        out.append({'h': 'unit', 'variant': 'usb', 'steps': ['connect', 'write', 'read2', 'write', 'read2', 'close', 'write', 'read2', 'close'], 't': 'sym', 'default': 'none', 'unplug': k})
    out.append({'h': 'unit', 'variant': 'usb', 'steps': ['connect', 'write', 'write', 'read2', 'close'], 't': 'sym', 'default': 'sym', 'short_out': True})
    out.append({'h': 'unit', 'variant': 'usb', 'steps': ['connect', 'read1500', 'read1025', 'read300', 'close'], 't': 'sym', 'default': 'sym', 'inbox': 4000})
    out.append({'h': 'session', 'variant': 'usb', 'by': None, 'ops': [['shell', {'lens': [1500, 3]}], 'stat'], 'eager': True})
    out.append({'h': 'session', 'variant': 'usb', 'by': None, 'ops': ['shell', ['push', {'size': 3000}]], 'nshort': 1})
    for k in range(3, 40, (2 if tier == 'quick' else 1)):
        out.append({'h': 'session', 'variant': 'usb', 'by': 'serial', 'ops': ['shell', 'stat'], 'unplug': k})
    for k in range(4, 64, (4 if tier == 'quick' else 1)):
        out.append({'h': 'session', 'variant': 'usb', 'by': None, 'ops': [['pull', {}], ['push', {'size': 3000}]], 'unplug': k})
    for by in (None, 'serial', 'port'):
        out.append({'h': 'session', 'variant': 'usb', 'by': by, 'ops': ['shell', 'stat', ['pull', {}], ['push', {'size': 5000}]], 'others': 1 if tier == 'quick' else 2})
    return out
