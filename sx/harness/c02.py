"""C02 - every packet the host emits is a well-formed ADB message (DESIGN.md section 3, C02)."""
import struct

from .. import core, sim, env
from ..core import SymBytes, SymInt, as_sym, norm, sand
from .common import World, Std, mk_bytearray, sym_content

PROPERTY = 'C02'
ASSUMPTIONS = [
    'independent decoder: 24-byte little-endian header by positional arithmetic; asserts known command, magic = cmd XOR 0xFFFFFFFF, length = |payload|, checksum = byte sum mod 2^32',
    'H02a: AdbMessage(cmd, a0, a1, data) built directly; a0, a1 symbolic over [0, 2^32) (and out of range for the must-raise VCs); payload bytes symbolic',
    'H02b: checksum() on concrete large payloads with sparse symbolic bytes (sum handled by one z3 Sum term)',
    'H02d: two concurrent operations (threads under the scheduler with preemption bound 1, asyncio tasks with all completion orders): only the framing oracle is asserted here, results are judged by C06',
    'H02c: whole sessions against the reactive device simulator with symbolic remote ids / payloads / file bytes; in-memory transport',
]
BOUNDS = {
    'quick': 'H02a: 7 commands x payload length 0..6 x bytes/bytearray; H02b: payloads 64 KiB and 1 MiB of 0xFF with 3 symbolic bytes; H02c: connect(auth/no auth)+shell+list+stat+pull+push(5 KiB file at maxdata 4096) sync and async',
    'thorough': 'H02a: payload length 0..10; H02b: additionally 17 MiB (byte sum > 2^32); H02c: additionally maxdata 65536 / 1 MiB with a 150 KiB file',
}
CMDS = ['SYNC', 'CNXN', 'AUTH', 'OPEN', 'OKAY', 'CLSE', 'WRTE']


def h_pack(ctx, mods, shape):
    cmd = shape['cmd'].encode()
    n = shape['n']
    a0 = ctx.int('a0', 0, 2 ** 32 - 1)
    a1 = ctx.int('a1', 0, 2 ** 32 - 1)
    data = ctx.bytes('d', n) if n else b''
    if shape['kind'] == 'bytearray':
        data = mk_bytearray(data)
    msg = mods.adb_message.AdbMessage(cmd, a0, a1, data)
    packed = msg.pack()
    ctx.observe('packed', packed)
    ctx.check(len(packed) == 24, 'header is 24 bytes')
    got = []
    dec = sim.HostDecoder(ctx, on_packet=got.append)
    dec.feed(packed)
    dec.feed(msg.data)
    dec.finish()
    if len(got) == 1:
        p = got[0]
        ctx.check(p.cmd == cmd, 'decoded command == command given')
        ctx.check(sand(p.a0 == a0, p.a1 == a1), 'decoded arg0/arg1 == values given')
        ctx.check(as_sym(data) == p.payload, 'payload bytes unchanged')
    else:
        ctx.fail('packed message decodes to exactly one packet', detail=str(len(got)))
    c, x0, x1, ln, ck = mods.adb_message.unpack(packed)
    s = core.sum_shim(as_sym(data))
    ctx.check(sand(c == sim.wid(cmd), x0 == a0, x1 == a1, ln == n, ck == (s % 2 ** 32)), 'unpack(pack(m)) returns the original fields')


def h_range(ctx, mods, shape):
    """values outside [0, 2^32) must raise, not wrap"""
    cmd = shape['cmd'].encode()
    which = shape['which']
    lo, hi = (2 ** 32, 2 ** 34) if shape['side'] == 'high' else (-2 ** 33, -1)
    bad = ctx.int('bad', lo, hi)
    a0, a1 = (bad, 5) if which == 0 else (5, bad)
    msg = mods.adb_message.AdbMessage(cmd, a0, a1, b'x')
    try:
        packed = msg.pack()
    except (struct.error, OverflowError) as e:
        ctx.observe('raised', type(e).__name__)
        ctx.check(True, 'out-of-range argument raises')
        return
    ctx.observe('packed', packed)
    ctx.fail('out-of-range argument raises instead of wrapping')


def h_checksum(ctx, mods, shape):
    size = shape['size']
    base = b'\xff' * size
    pos = [0, size // 2, size - 1]
    vals = ctx.bytes('s', 3)
    if ctx.symbolic:
        ba = bytearray(base)
        ov = {}
        for i, p in enumerate(pos):
            ba[p] = 0
            ov[p] = vals.ov[i]
        data = SymBytes(bytes(ba), ov)
        want = (255 * (size - 3) + core.SymInt(vals.ov[0]) + core.SymInt(vals.ov[1]) + core.SymInt(vals.ov[2])) % 2 ** 32
    else:
        ba = bytearray(base)
        for i, p in enumerate(pos):
            ba[p] = vals[i]
        data = bytes(ba)
        want = (255 * (size - 3) + sum(vals)) % 2 ** 32
    if shape['kind'] == 'bytearray':
        data = mk_bytearray(data)
    got = mods.adb_message.checksum(data)
    ctx.observe('checksum', got)
    ctx.check(got == want, 'checksum == byte sum mod 2^32 on a %d-byte payload' % size)
    msg = mods.adb_message.AdbMessage(b'WRTE', 1, 2, data)
    packed = msg.pack()
    ctx.check(sand(core.word_le(as_sym(packed), 12) == size, core.word_le(as_sym(packed), 16) == want), 'packed header carries length and checksum of the large payload')


def h_session(ctx, mods, shape):
    """A whole session; every byte written to the transport is parsed by the independent decoder."""
    maxdata = shape['maxdata']
    fsize = shape['fsize']
    auth = None
    keys = None
    if shape.get('auth'):
        from .c05 import make_auth
        if shape.get('auth') == 'pubkey_text':
            auth, keys = make_auth(ctx, nkeys=1, accept=('pubkey',), maxdata=maxdata, str_pubkey='nonascii')
        else:
            auth, keys = make_auth(ctx, nkeys=2, accept=('key', 1), maxdata=maxdata)
    st = Std(ctx, maxdata=maxdata, auth=auth)
    if shape.get('sym_version'):
        st.dev.version = ctx.int('device_version', 0, 2 ** 32 - 1)
    st.shell_outs[b'shell:'] = [ctx.bytes('out', 3), ctx.bytes('out', 2)]
    st.fs.stat[b'/f'] = (ctx.int('mode', 0, 2 ** 32 - 1), ctx.int('size', 0, 2 ** 32 - 1), ctx.int('mtime', 0, 2 ** 32 - 1))
    st.fs.listing[b'/d'] = [(ctx.int('m', 0, 2 ** 32 - 1), 1, 2, ctx.bytes('name', 2))]
    st.fs.recv[b'/f'] = [ctx.bytes('rec', 3), ctx.bytes('rec', 2)]
    w = World(ctx, mods, st.dev, impl=shape['impl'])
    chunk = min(65536, maxdata // 2)
    content = sym_content(ctx, 'file', fsize, [0, 1, chunk - 1, chunk, maxdata - 9, maxdata - 8, fsize - 1])
    w.vfs.add_file('/cwd/src.bin', content)
    steps = [('connect', (), {'rsa_keys': keys} if keys else {}),
             ('shell', ('ls',), {'decode': False}),
             ('list', ('/d',), {}), ('stat', ('/f',), {}),
             ('pull', ('/f', env.SymBytesIO()), {}),
             ('push', ('/cwd/src.bin', '/sdcard/dst'), {'mtime': ctx.int('pmtime', 1, 2 ** 32 - 1)})]
    for name, a, k in steps:
        o = w.try_call(name, *a, **k)
        ctx.observe(name, o.kind())
        if not o.ok:
            ctx.fail('%s raised %s in a fault-free session' % (name, o.kind()), detail=repr(o.exc))
            return
    st.dev.decoder.finish()
    ctx.check(len(st.dev.decoder.packets) > 20, 'session produced packets', detail=str(len(st.dev.decoder.packets)))
    ctx.observe('npackets', len(st.dev.decoder.packets))
    for p in st.dev.decoder.packets:
        if p.cmd == b'WRTE':
            ctx.check(len(p.payload) <= maxdata, 'WRTE payload <= maxdata')


from .c06 import h_threads, h_async
from .c15 import h_short

HARNESSES = {'pack': h_pack, 'range': h_range, 'checksum': h_checksum, 'session': h_session, 'threads': h_threads, 'async': h_async, 'short': h_short}


def shapes(tier, seed):
    q = tier == 'quick'
    out = []
    for cmd in CMDS:
        for n in range(0, 7 if q else 11):
            for kind in ('bytes', 'bytearray'):
                out.append({'h': 'pack', 'cmd': cmd, 'n': n, 'kind': kind})
        for which in (0, 1):
            for side in ('high', 'low'):
                out.append({'h': 'range', 'cmd': cmd, 'which': which, 'side': side})
    for size in ((65536, 1 << 20) if q else (65536, 1 << 20, 17 << 20)):
        for kind in ('bytes', 'bytearray'):
            out.append({'h': 'checksum', 'size': size, 'kind': kind})
    for impl in ('sync', 'async'):
        for auth in (False, True):
            out.append({'h': 'session', 'impl': impl, 'maxdata': 4096, 'fsize': 5000, 'auth': auth})
        out.append({'h': 'session', 'impl': impl, 'maxdata': 4096, 'fsize': 5000, 'auth': False, 'sym_version': True})
        out.append({'h': 'session', 'impl': impl, 'maxdata': 4096, 'fsize': 100, 'auth': 'pubkey_text'})
        if not q:
            out.append({'h': 'session', 'impl': impl, 'maxdata': 65536, 'fsize': 150000, 'auth': False})
            out.append({'h': 'session', 'impl': impl, 'maxdata': 1 << 20, 'fsize': 150000, 'auth': False})
    # short writes: the bytes the transport accepted still form well-framed messages (two short writes may hit the same buffer)
    for impl in ('sync', 'async'):
        out.append({'h': 'short', 'impl': impl, 'op': 'connect', 'nshort': 2})
        out.append({'h': 'short', 'impl': impl, 'op': 'shell', 'spec': 'shell', 'nshort': 2, 'max_paths': 400000})
    # concurrent streams: header and payload of one message stay back-to-back on the wire (the results themselves are judged by C06)
    sh = ['shell', {'lens': [1]}]
    out.append({'h': 'async', 'ops': [sh, sh], 'judge_results': False, 'max_paths': 60000})
    out.append({'h': 'async', 'ops': [sh, ['push', {'size': 3000}]], 'judge_results': False, 'max_paths': 60000})
    out.append({'h': 'threads', 'ops': [sh, sh], 'preempt': 1, 'yields': False, 'judge_results': False, 'max_paths': 60000})
    out.append({'h': 'threads', 'ops': [sh, ['push', {'size': 3000}]], 'preempt': 1, 'yields': False, 'judge_results': False, 'max_paths': 60000})
    return out
