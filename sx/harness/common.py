"""Shared harness plumbing: a World wires the loaded code under test to the environment stubs for one path."""
from .. import core, env, sim, sched
from ..core import SymBytes, SymInt, as_sym, norm, sand, sor

_TCACHE = {}


def transports(mods):
    k = id(mods)
    if k not in _TCACHE:
        _TCACHE[k] = env.make_transports(mods)
    return _TCACHE[k]


class Hang(Exception):
    """the operation would block forever (self-deadlock on a lock, or an await that nothing completes)"""


class Outcome:
    def __init__(self, value=None, exc=None):
        self.value = value
        self.exc = exc

    @property
    def ok(self):
        return self.exc is None

    def kind(self):
        return 'ok' if self.exc is None else type(self.exc).__name__

    def __repr__(self):
        return 'Outcome(%r)' % (self.value if self.exc is None else self.exc,)


def install_k1_probe(ctx, mods):
    """Record (monkey-patch, no source change) when _AdbPacketStore.put drops a CLSE because the pair has no entry (K1)."""
    cls = mods.hidden_helpers._AdbPacketStore
    if not hasattr(cls, '_sx_orig_put'):
        cls._sx_orig_put = cls.put
    orig = cls._sx_orig_put
    CLSE = b'CLSE'

    def put(self, arg0, arg1, cmd, data):
        if cmd == CLSE:
            before = len(self._dict.get(arg1, {}) if arg1 in self._dict else {})
            known = arg1 in self._dict and arg0 in self._dict[arg1]
            if not known:
                ctx.event('K1: CLSE for pair (remote %s, local %s) dropped by _AdbPacketStore.put (no entry)' % (_short(arg0), _short(arg1)))
        return orig(self, arg0, arg1, cmd, data)
    cls.put = put


def _short(v):
    return 'sym' if isinstance(v, SymInt) else str(v)


class World:
    def __init__(self, ctx, mods, device, impl='sync', frag=None, short_write=None, fault=None, default_timeout=None, banner=b'host',
                 clock=None, vfs=None, budget=4000, yield_hook=None):
        self.ctx = ctx
        self.mods = mods
        self.impl = impl
        reg = getattr(ctx, 'register_world', None)
        if reg is not None:
            reg(self)
        self.clock = clock or env.Clock(0)
        self.vfs = vfs or env.VFS()
        self.device = device
        mods.set_global('time', self.clock)
        mods.set_global('open', self.vfs.open)
        mods.set_global('os', self.vfs.os_module())
        mods.set_global('aiofiles', self.vfs.aiofiles_module())
        mods.set_global('get_running_loop', env.get_running_loop_stub)
        install_k1_probe(ctx, mods)
        MemT, MemTA = transports(mods)
        self.wire = env.Wire(ctx, device, self.clock, mods.exceptions.TcpTimeoutException, frag=frag, short_write=short_write, fault=fault,
                             budget=budget, yield_hook=yield_hook)
        if impl == 'sync':
            self.transport = MemT(self.wire)
            self.drv = env.SyncDriver()
            # non-reentrant lock stand-in: re-acquiring a held lock raises instead of blocking the harness forever
            if getattr(mods.adb_device, 'Lock', None) is not sched.SchedLock:
                mods.set_global('Lock', sched.SchedLock, only=('adb_device',))
            self.dev = mods.adb_device.AdbDevice(self.transport, default_transport_timeout_s=default_timeout, banner=banner)
        else:
            self.transport = MemTA(self.wire)
            self.drv = env.AsyncDriver()
            self.dev = mods.adb_device_async.AdbDeviceAsync(self.transport, default_transport_timeout_s=default_timeout, banner=banner)

    def call(self, name, *a, **k):
        return self.drv.call(getattr(self.dev, name), *a, **k)

    def try_call(self, name, *a, **k):
        try:
            return Outcome(value=self.call(name, *a, **k))
        except (sched.SelfDeadlock, env.CoroutineSuspended) as e:
            return Outcome(exc=Hang(str(e)))
        except Exception as e:
            return Outcome(exc=e)

    def stream(self, name, *a, **k):
        """iterate a (async) generator API, collecting items; returns Outcome(list) (items so far are kept in .partial on error)"""
        items = []
        try:
            for it in self.drv.iterate(getattr(self.dev, name)(*a, **k)):
                items.append(it)
            return Outcome(value=items)
        except (sched.SelfDeadlock, env.CoroutineSuspended) as e:
            o = Outcome(exc=Hang(str(e)))
            o.partial = items
            return o
        except Exception as e:
            o = Outcome(exc=e)
            o.partial = items
            return o

    def written(self):
        out = SymBytes()
        for w in self.wire.written:
            out = out + w
        return out


def cnxn_packet(maxdata=4096, banner=b'device::\0'):
    return sim.frame(b'CNXN', sim.VERSION, maxdata, banner)


def cuts(ctx, total, ncuts, label='cut', part=None):
    """all placements of `ncuts` strictly increasing cut positions in (0, total): finite choices.
    part=(i, n) restricts the first cut to positions congruent to i mod n (to spread one shape over several workers)."""
    pos = []
    prev = 0
    for i in range(ncuts):
        lo = prev + 1
        hi = total - 1 - (ncuts - 1 - i)
        if hi < lo:
            break
        cands = list(range(lo, hi + 1))
        if i == 0 and part is not None:
            cands = [c for c in cands if c % part[1] == part[0]]
            if not cands:
                raise core.PathAbort()
        c = cands[ctx.choose(len(cands), label)]
        pos.append(c)
        prev = c
    return pos


def split_at(data, positions):
    data = as_sym(data)
    out = []
    prev = 0
    for p in list(positions) + [len(data)]:
        out.append(data[prev:p])
        prev = p
    return out


def compositions(n, maxparts=None):
    """all ordered tuples of positive ints summing to n"""
    if n == 0:
        yield ()
        return
    for first in range(1, n + 1):
        for rest in compositions(n - first):
            if maxparts is None or len(rest) + 1 <= maxparts:
                yield (first,) + rest


def exc_name(o):
    return o.kind()


# ------------------------------------------------------------------------------------------------
#  standard reactive device configuration
# ------------------------------------------------------------------------------------------------
def mk_bytearray(b):
    if isinstance(b, SymBytes):
        return core.SymByteArray(b.base, b.ov)
    return bytearray(b)


class _SilentService(sim.Service):
    """a service that never answers the OPEN"""

    def on_open(self, s):
        pass


class Std:
    """A reactive device with symbolic content: shell outputs, a sync file system, symbolic remote ids."""

    def __init__(self, ctx, maxdata=4096, sym_rid=True, packetize=None, fail=None, bad_id=None, auth=None, pick=None, gate=None, monitor=None,
                 shell_outs=None, rid_base=None, reorder=None):
        self.ctx = ctx
        self.fs = sim.SyncFS()
        self.shell_outs = shell_outs or {}
        self.default_out = [b'ok']
        self.packetize = packetize
        self.fail = fail
        self.bad_id = bad_id
        self.sync_services = []
        self.rids = []

        def rid_alloc(lid, n):
            if sym_rid:
                r = ctx.int('rid', 1, 2 ** 32 - 1)
            else:
                r = (rid_base or 1000) + n
            self.rids.append(r)
            return r

        def services(dest, stream):
            d = norm(dest)
            if isinstance(d, SymBytes):
                d = core.concrete_bytes(d)
            if not d.endswith(b'\0'):
                ctx.fail('OPEN destination is NUL-terminated', detail=repr(d))
            d = d.rstrip(b'\0')
            stream.dest_name = d
            if d in getattr(self, 'silent_dests', ()):
                return _SilentService()
            if d == b'sync:':
                svc = sim.SyncService(self.fs, packetize=self.packetize, fail=self.fail, bad_id=self.bad_id)
                svc.truncate_recv = getattr(self, 'truncate_recv', None)
                tr = getattr(self, 'truncate_reply', None)
                if tr is not None:
                    svc.truncate_reply = tr
                    self.truncate_reply = None      # only the first sync stream is cut short
                self.sync_services.append(svc)
                return svc
            for pre in (b'shell:', b'exec:', b'root:', b'reboot:'):
                if d.startswith(pre):
                    outs = self.shell_outs.get(d)
                    if outs is None:
                        outs = self.shell_outs.get(pre, self.default_out if pre in (b'shell:', b'exec:') else [])
                    return sim.OutputService(outs, dup_clse=getattr(self, 'dup_clse', False))
            return None

        self.dev = sim.SimDevice(ctx, services, maxdata=maxdata, auth=auth, rid_alloc=rid_alloc, pick=pick, gate=gate, monitor=monitor, reorder=reorder)


def sym_content(ctx, name, size, sym_positions):
    """A byte string of `size` bytes: a deterministic concrete pattern with symbolic bytes at the given positions."""
    base = bytes((i * 7 + 13) % 251 for i in range(size))
    pos = sorted({p for p in sym_positions if 0 <= p < size})
    if not pos:
        return base if not ctx.symbolic else SymBytes(base)
    vals = ctx.bytes(name, len(pos))
    if isinstance(vals, bytes):
        b = bytearray(base)
        for p, v in zip(pos, vals):
            b[p] = v
        return bytes(b)
    ba = bytearray(base)
    ov = {}
    for i, p in enumerate(pos):
        ov[p] = vals.ov[i]
        ba[p] = 0
    return SymBytes(bytes(ba), ov)
