"""Shared harness plumbing: a World wires the loaded code under test to the environment stubs for one path."""
from .. import core, env, sim
from ..core import SymBytes, SymInt, as_sym, norm, sand, sor

_TCACHE = {}


def transports(mods):
    k = id(mods)
    if k not in _TCACHE:
        _TCACHE[k] = env.make_transports(mods)
    return _TCACHE[k]


class Outcome:
    def __init__(self, value=None, exc=None):
        self.value = value
        self.exc = exc

    @property
    def ok(self):
        return self.exc is None

    def kind(self):
        return 'ok' if self.exc is None else type(self.exc).__name__

    def __repr__(self):
        return 'Outcome(%r)' % (self.value if self.exc is None else self.exc,)


class World:
    def __init__(self, ctx, mods, device, impl='sync', frag=None, short_write=None, fault=None, default_timeout=None, banner=b'host',
                 clock=None, vfs=None, budget=4000, yield_hook=None):
        self.ctx = ctx
        self.mods = mods
        self.impl = impl
        self.clock = clock or env.Clock(0)
        self.vfs = vfs or env.VFS()
        self.device = device
        mods.set_global('time', self.clock)
        mods.set_global('open', self.vfs.open)
        mods.set_global('os', self.vfs.os_module())
        mods.set_global('aiofiles', self.vfs.aiofiles_module())
        mods.set_global('get_running_loop', env.get_running_loop_stub)
        MemT, MemTA = transports(mods)
        self.wire = env.Wire(ctx, device, self.clock, mods.exceptions.TcpTimeoutException, frag=frag, short_write=short_write, fault=fault,
                             budget=budget, yield_hook=yield_hook)
        if impl == 'sync':
            self.transport = MemT(self.wire)
            self.drv = env.SyncDriver()
            self.dev = mods.adb_device.AdbDevice(self.transport, default_transport_timeout_s=default_timeout, banner=banner)
        else:
            self.transport = MemTA(self.wire)
            self.drv = env.AsyncDriver()
            self.dev = mods.adb_device_async.AdbDeviceAsync(self.transport, default_transport_timeout_s=default_timeout, banner=banner)

    def call(self, name, *a, **k):
        return self.drv.call(getattr(self.dev, name), *a, **k)

    def try_call(self, name, *a, **k):
        try:
            return Outcome(value=self.call(name, *a, **k))
        except Exception as e:
            return Outcome(exc=e)

    def stream(self, name, *a, **k):
        """iterate a (async) generator API, collecting items; returns Outcome(list) (items so far are kept in .partial on error)"""
        items = []
        try:
            for it in self.drv.iterate(getattr(self.dev, name)(*a, **k)):
                items.append(it)
            return Outcome(value=items)
        except Exception as e:
            o = Outcome(exc=e)
            o.partial = items
            return o

    def written(self):
        out = SymBytes()
        for w in self.wire.written:
            out = out + w
        return out


def cnxn_packet(maxdata=4096, banner=b'device::\0'):
    return sim.frame(b'CNXN', sim.VERSION, maxdata, banner)


def cuts(ctx, total, ncuts, label='cut'):
    """all placements of `ncuts` strictly increasing cut positions in (0, total): finite choices"""
    pos = []
    prev = 0
    for i in range(ncuts):
        lo = prev + 1
        hi = total - 1 - (ncuts - 1 - i)
        if hi < lo:
            break
        c = lo + ctx.choose(hi - lo + 1, label)
        pos.append(c)
        prev = c
    return pos


def split_at(data, positions):
    data = as_sym(data)
    out = []
    prev = 0
    for p in list(positions) + [len(data)]:
        out.append(data[prev:p])
        prev = p
    return out


def compositions(n, maxparts=None):
    """all ordered tuples of positive ints summing to n"""
    if n == 0:
        yield ()
        return
    for first in range(1, n + 1):
        for rest in compositions(n - first):
            if maxparts is None or len(rest) + 1 <= maxparts:
                yield (first,) + rest


def exc_name(o):
    return o.kind()
