"""pytest plugin for translator validation (DESIGN.md 2.7 a): the repository's own tests run against the INSTRUMENTED build.

Loaded with `-p sx.tvplugin`: before any test module is imported, adb_shell and its submodules are replaced in sys.modules
by the AST-rewritten modules with all value shims active (no explorer, no environment stubs)."""
import sys

from . import loader

for k in [k for k in sys.modules if k == 'adb_shell' or k.startswith('adb_shell.')]:
    del sys.modules[k]
MODS = loader.load(instrumented=True, yields=False, prefix='adb_shell', keep_logger=True)
# the package's __init__ content
import types  # noqa
sys.modules['adb_shell'].__version__ = 'instrumented'


def pytest_report_header(config):
    return 'adb_shell = SX instrumented build (%d modules rewritten)' % len(MODS.by_name)


loader.COV_SINK = set()


def pytest_sessionfinish(session, exitstatus):
    import json, os
    ok = sys.modules.get('adb_shell.adb_device') is MODS.adb_device and '__sx_dict__' in MODS.adb_device.__dict__
    out = os.environ.get('SX_TV_REPORT')
    if out:
        with open(out, 'w') as f:
            json.dump({'instrumented_modules_in_place': ok, 'functions_executed': sorted(loader.COV_SINK), 'exitstatus': int(exitstatus)}, f)
