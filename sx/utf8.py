"""Executable model of CPython's UTF-8 decoder (strict / ignore / replace / backslashreplace).

decode(items, errors) takes byte items (int or SymInt) and returns a SymStr of code-point terms.  It forks
(through SymBool.__bool__) on the *class* of each byte only; code points and \\xNN digits stay terms.
Validated against bytes.decode in sx/selftest.py.
"""
from . import core
from .core import SymInt, SymStr, ite


def _hexdigit(n):
    # '0'..'9' 'a'..'f'
    if isinstance(n, SymInt):
        return ite(n < 10, 48 + n, 87 + n)
    return 48 + n if n < 10 else 87 + n


def _escape(b):
    return [92, 120, _hexdigit(b // 16 if isinstance(b, int) else b // 16), _hexdigit(b % 16)]


def _between(b, lo, hi):
    if isinstance(b, int):
        return lo <= b <= hi
    return bool(core.sand(b >= lo, b <= hi))


def decode(items, errors='strict'):
    out = []
    n = len(items)
    i = 0

    def err(start, end, reason):
        if errors == 'strict':
            raise UnicodeDecodeError('utf-8', b'?', start, end, reason)
        if errors == 'ignore':
            return
        if errors == 'replace':
            out.append(0xFFFD)
            return
        if errors == 'backslashreplace':
            for k in range(start, end):
                out.extend(_escape(items[k]))
            return
        raise core.Unsupported('utf-8 error handler %r' % (errors,))

    while i < n:
        b0 = items[i]
        if _between(b0, 0, 0x7F):
            out.append(b0)
            i += 1
            continue
        if _between(b0, 0x80, 0xC1) or _between(b0, 0xF5, 0xFF):
            err(i, i + 1, 'invalid start byte')
            i += 1
            continue
        if _between(b0, 0xC2, 0xDF):
            need, lo2, hi2 = 1, 0x80, 0xBF
        elif _between(b0, 0xE0, 0xE0):
            need, lo2, hi2 = 2, 0xA0, 0xBF
        elif _between(b0, 0xED, 0xED):
            need, lo2, hi2 = 2, 0x80, 0x9F
        elif _between(b0, 0xE1, 0xEF):
            need, lo2, hi2 = 2, 0x80, 0xBF
        elif _between(b0, 0xF0, 0xF0):
            need, lo2, hi2 = 3, 0x90, 0xBF
        elif _between(b0, 0xF4, 0xF4):
            need, lo2, hi2 = 3, 0x80, 0x8F
        else:   # F1..F3
            need, lo2, hi2 = 3, 0x80, 0xBF
        # consume continuation bytes
        got = 0
        bad = False
        while got < need:
            if i + 1 + got >= n:
                break
            c = items[i + 1 + got]
            lo, hi = (lo2, hi2) if got == 0 else (0x80, 0xBF)
            if not _between(c, lo, hi):
                bad = True
                break
            got += 1
        if got < need:
            # invalid continuation (bad) or truncated at the end of input: the error covers lead + valid continuations
            err(i, i + 1 + got, 'invalid continuation byte' if bad else 'unexpected end of data')
            i += 1 + got
            continue
        if need == 1:
            cp = (b0 - 0xC0) * 64 + (items[i + 1] - 0x80)
        elif need == 2:
            cp = (b0 - 0xE0) * 4096 + (items[i + 1] - 0x80) * 64 + (items[i + 2] - 0x80)
        else:
            cp = (b0 - 0xF0) * 262144 + (items[i + 1] - 0x80) * 4096 + (items[i + 2] - 0x80) * 64 + (items[i + 3] - 0x80)
        out.append(cp)
        i += 1 + need
    if all(isinstance(c, int) for c in out):
        return ''.join(map(chr, out))
    return SymStr(out)
