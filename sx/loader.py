"""Load adb_shell's modules from the repository's *current* source (DESIGN.md 2.2).

instrumented=True : AST rewrites + value shims, modules live under a private package name
instrumented=False: the same source compiled unchanged (native replay / validation)
Nothing is cached between runs; no file under the repository is modified.
"""
import ast
import os
import sys
import types

from . import core

REPO = os.environ.get('SX_REPO', '/repo')

MODULES = ('constants', 'exceptions', 'adb_message', 'hidden_helpers',
           'transport.base_transport', 'transport.base_transport_async',
           'transport.tcp_transport', 'transport.tcp_transport_async',
           'adb_device', 'adb_device_async')

# qualnames that get a yield point before every statement in concurrency builds
YIELD_PREFIXES = ('_AdbIOManager', '_AdbIOManagerAsync', '_AdbPacketStore', 'AdbDevice._open', 'AdbDeviceAsync._open')


class Rewriter(ast.NodeTransformer):
    def __init__(self, yields=False, values=True):
        self.stack = []
        self.yields = yields
        self.values = values

    # --- value rewrites
    def visit_Dict(self, node):
        self.generic_visit(node)
        if not self.values or any(k is None for k in node.keys):
            return node
        pairs = ast.List(elts=[ast.Tuple(elts=[k, v], ctx=ast.Load()) for k, v in zip(node.keys, node.values)], ctx=ast.Load())
        return ast.copy_location(ast.Call(func=ast.Name(id='__sx_dict__', ctx=ast.Load()), args=[pairs], keywords=[]), node)

    def visit_DictComp(self, node):
        self.generic_visit(node)
        if not self.values:
            return node
        gen = ast.GeneratorExp(elt=ast.Tuple(elts=[node.key, node.value], ctx=ast.Load()), generators=node.generators)
        return ast.copy_location(ast.Call(func=ast.Name(id='__sx_dict__', ctx=ast.Load()), args=[gen], keywords=[]), node)

    def visit_BinOp(self, node):
        self.generic_visit(node)
        if self.values and isinstance(node.op, ast.Mod) and isinstance(node.left, ast.Constant) and isinstance(node.left.value, (str, bytes)):
            return ast.copy_location(ast.Call(func=ast.Name(id='__sx_fmt__', ctx=ast.Load()), args=[node.left, node.right], keywords=[]), node)
        return node

    def visit_Call(self, node):
        self.generic_visit(node)
        if not self.values:
            return node
        f = node.func
        if isinstance(f, ast.Attribute) and f.attr == 'join' and isinstance(f.value, ast.Constant) and isinstance(f.value.value, (bytes, str)):
            return ast.copy_location(ast.Call(func=ast.Name(id='__sx_join__', ctx=ast.Load()), args=[f.value] + node.args, keywords=[]), node)
        if isinstance(f, ast.Attribute) and f.attr == 'format' and isinstance(f.value, ast.Constant) and isinstance(f.value.value, str):
            return ast.copy_location(ast.Call(func=ast.Name(id='__sx_sformat__', ctx=ast.Load()), args=[f.value] + node.args, keywords=node.keywords), node)
        return node

    # --- structure
    def visit_ClassDef(self, node):
        self.stack.append(node.name)
        self.generic_visit(node)
        self.stack.pop()
        return node

    def _func(self, node):
        self.stack.append(node.name)
        qual = '.'.join(self.stack)
        self.generic_visit(node)
        prefixes = YIELD_PREFIXES if self.yields is True else tuple(self.yields or ())
        if self.yields and any(qual.startswith(p) for p in prefixes):
            node.body = self._with_yields(node.body)
        cov = ast.Expr(value=ast.Call(func=ast.Name(id='__sx_cov__', ctx=ast.Load()), args=[ast.Constant(value=qual)], keywords=[]))
        # keep a docstring first
        if node.body and isinstance(node.body[0], ast.Expr) and isinstance(getattr(node.body[0], 'value', None), ast.Constant) and isinstance(node.body[0].value.value, str):
            node.body.insert(1, cov)
        else:
            node.body.insert(0, cov)
        self.stack.pop()
        return node

    visit_FunctionDef = _func
    visit_AsyncFunctionDef = _func

    def _yp(self):
        return ast.Expr(value=ast.Call(func=ast.Name(id='__sx_yp__', ctx=ast.Load()), args=[], keywords=[]))

    def _with_yields(self, body):
        out = []
        for st in body:
            if isinstance(st, (ast.FunctionDef, ast.AsyncFunctionDef, ast.ClassDef)):
                out.append(st)
                continue
            # split `obj.attr += e` into load / yield / store
            if isinstance(st, ast.AugAssign) and isinstance(st.target, ast.Attribute):
                tmp = '__sx_tmp__'
                load = ast.Assign(targets=[ast.Name(id=tmp, ctx=ast.Store())],
                                  value=ast.BinOp(left=ast.Attribute(value=st.target.value, attr=st.target.attr, ctx=ast.Load()), op=st.op, right=st.value))
                store = ast.Assign(targets=[ast.Attribute(value=st.target.value, attr=st.target.attr, ctx=ast.Store())], value=ast.Name(id=tmp, ctx=ast.Load()))
                out += [self._yp(), ast.copy_location(load, st), self._yp(), ast.copy_location(store, st)]
                continue
            for field in ('body', 'orelse', 'finalbody'):
                sub = getattr(st, field, None)
                if isinstance(sub, list) and sub and isinstance(sub[0], ast.stmt):
                    setattr(st, field, self._with_yields(sub))
            if isinstance(st, ast.Try):
                for h in st.handlers:
                    h.body = self._with_yields(h.body)
            out += [self._yp(), st]
        return out


def _noop(*a, **k):
    return None


class _NullLogger:
    def __getattr__(self, name):
        return _noop

    def isEnabledFor(self, level):
        return False


def _cov(qual):
    ex = core.CUR
    if ex is not None:
        ex.cov.add(qual)
    elif COV_SINK is not None:
        COV_SINK.add(qual)


COV_SINK = None
YIELD_HOOK = [None]


def _yp():
    h = YIELD_HOOK[0]
    if h is not None:
        h()


VALUE_SHIMS = {
    '__sx_dict__': core.SymDict,
    '__sx_fmt__': core.fmt_shim,
    '__sx_join__': core.join_shim,
    '__sx_sformat__': core.sformat_shim,
    '__sx_cov__': _cov,
    '__sx_yp__': _yp,
    'bytes': core.bytes_shim,
    'bytearray': core.bytearray_shim,
    'int': core.int_shim,
    'len': core.len_shim,
    'sum': core.sum_shim,
    'chr': core.chr_shim,
}


class Mods:
    """Namespace of the loaded modules: m.adb_device, m.constants, ..."""

    def __init__(self, prefix, instrumented):
        self.prefix = prefix
        self.instrumented = instrumented
        self.by_name = {}

    def __getattr__(self, name):
        try:
            return self.by_name[name]
        except KeyError:
            raise AttributeError(name)

    def all(self):
        return list(self.by_name.values())

    def set_global(self, name, value, only=None):
        """Inject an environment stub as a module global wherever the module already binds/uses that name."""
        for mname, m in self.by_name.items():
            if only is not None and mname not in only:
                continue
            m.__dict__[name] = value


_counter = [0]


def load(instrumented=True, yields=False, names=MODULES, extra_globals=None, pre_modules=None, repo=None, prefix=None, keep_logger=False):
    """Compile the modules from source and execute them under a fresh private package name."""
    repo = repo or REPO
    _counter[0] += 1
    real_name = prefix is not None
    if prefix is None:
        prefix = ('sxi_' if instrumented else 'sxn_') + 'adb_shell_%d' % _counter[0]
    mods = Mods(prefix, instrumented)
    pkg = types.ModuleType(prefix)
    # under the real package name (translator validation) unlisted submodules (auth.*, usb) are imported from source as usual
    pkg.__path__ = [os.path.join(repo, 'adb_shell')] if real_name else []
    pkg.__file__ = os.path.join(repo, 'adb_shell', '__init__.py')
    sys.modules[prefix] = pkg
    for sub in ('transport', 'auth'):
        sp = types.ModuleType(prefix + '.' + sub)
        sp.__path__ = [os.path.join(repo, 'adb_shell', sub)] if real_name else []
        sys.modules[prefix + '.' + sub] = sp
        setattr(pkg, sub, sp)
    for full, mod in (pre_modules or {}).items():
        sys.modules[full] = mod
    for n in names:
        path = os.path.join(repo, 'adb_shell', *n.split('.')) + '.py'
        with open(path) as f:
            src = f.read()
        tree = ast.parse(src, path)
        if instrumented or yields:
            tree = Rewriter(yields=yields, values=instrumented).visit(tree)
            ast.fix_missing_locations(tree)
        code = compile(tree, path, 'exec')
        full = prefix + '.' + n
        m = types.ModuleType(full)
        m.__file__ = path
        m.__package__ = full.rpartition('.')[0]
        if instrumented:
            m.__dict__.update(VALUE_SHIMS)
        elif yields:
            m.__dict__.update({'__sx_cov__': _cov, '__sx_yp__': _yp})
        if extra_globals:
            m.__dict__.update(extra_globals.get(n, {}))
        sys.modules[full] = m
        exec(code, m.__dict__)
        if instrumented and 'struct' in m.__dict__:
            m.__dict__['struct'] = core.struct_shim
        if '_LOGGER' in m.__dict__ and not keep_logger:
            m.__dict__['_LOGGER'] = _NullLogger()
        setattr(sys.modules[m.__package__], n.split('.')[-1], m)
        mods.by_name[n.split('.')[-1]] = m
    return mods


def unload(mods):
    for k in [k for k in sys.modules if k == mods.prefix or k.startswith(mods.prefix + '.')]:
        del sys.modules[k]
