"""SX core: proxy value domain + depth-first re-execution explorer over z3 (DESIGN.md 2.1, 2.3).

The real adb_shell source runs natively in CPython; SymInt/SymReal/SymBytes/... carry z3 terms.  A
comparison yields a SymBool; when Python needs its truth value the explorer decides it with z3 and
records the decision, and the harness is re-executed once per path.
"""
import io as _io
import struct as _struct
import time as _time
import re as _re
from fractions import Fraction

import z3

MARK = '⟪SXSYM'
MARKB = MARK.encode('utf-8')


class PathAbort(BaseException):
    """The current path is infeasible / discarded (never a verdict)."""


class Unsupported(BaseException):
    """An operation SX has no term for reached a proxy."""


class HarnessError(Exception):
    """The machinery itself is wrong (never a verdict about the code under test)."""


class Budget(BaseException):
    """Operation budget exhausted (possible non-termination)."""


CUR = None   # the active Explorer (symbolic mode) or None (native mode / no exploration)
ABORTED = False   # sticky: set when a PathAbort was raised (bare `except:` in the code under test may swallow it)


def active():
    return CUR is not None


def _check_abort():
    if ABORTED:
        raise PathAbort()


# ------------------------------------------------------------------------------------------------
#  helpers
# ------------------------------------------------------------------------------------------------
def _frac_to_z3(f):
    f = Fraction(f)
    return z3.Q(f.numerator, f.denominator)


def _it(x):
    """-> z3 Int term for an int-like, or NotImplemented"""
    if isinstance(x, SymInt):
        return x.t
    if isinstance(x, bool):
        return z3.IntVal(int(x))
    if isinstance(x, int):
        return z3.IntVal(x)
    return NotImplemented


def _rt(x):
    """-> z3 Real term for a number-like, or NotImplemented"""
    if isinstance(x, SymReal):
        return x.t
    if isinstance(x, SymInt):
        return z3.ToReal(x.t)
    if isinstance(x, bool):
        return z3.RealVal(int(x))
    if isinstance(x, int):
        return z3.RealVal(x)
    if isinstance(x, (float, Fraction)):
        return _frac_to_z3(x)
    return NotImplemented


def is_sym(x):
    return isinstance(x, (SymInt, SymReal, SymBool)) or (isinstance(x, SymBytes) and bool(x.ov)) or isinstance(x, (SymStr, AbsStr, LenBytes))


# ------------------------------------------------------------------------------------------------
#  SymBool
# ------------------------------------------------------------------------------------------------
class SymBool:
    __slots__ = ('t',)
    __hash__ = None

    def __init__(self, t):
        self.t = t

    def __bool__(self):
        _check_abort()
        return CUR.branch(self.t)

    def _o(self, o):
        if isinstance(o, SymBool):
            return o.t
        return z3.BoolVal(bool(o))

    def __and__(self, o):
        return SymBool(z3.And(self.t, self._o(o)))
    __rand__ = __and__

    def __or__(self, o):
        return SymBool(z3.Or(self.t, self._o(o)))
    __ror__ = __or__

    def __invert__(self):
        return SymBool(z3.Not(self.t))

    def __eq__(self, o):
        if isinstance(o, (SymBool, bool)):
            return SymBool(self.t == self._o(o))
        return NotImplemented

    def __repr__(self):
        return MARK + '<bool>'


def sand(*xs):
    """Conjunction of python bools / SymBools without forking."""
    ts = []
    for x in xs:
        if isinstance(x, SymBool):
            ts.append(x.t)
        elif not x:
            return False
    if not ts:
        return True
    return SymBool(z3.And(*ts)) if len(ts) > 1 else SymBool(ts[0])


def sor(*xs):
    ts = []
    for x in xs:
        if isinstance(x, SymBool):
            ts.append(x.t)
        elif x:
            return True
    if not ts:
        return False
    return SymBool(z3.Or(*ts)) if len(ts) > 1 else SymBool(ts[0])


def snot(x):
    if isinstance(x, SymBool):
        return SymBool(z3.Not(x.t))
    return not x


def simplies(a, b):
    return sor(snot(a), b)


def ite(c, a, b):
    """if-then-else on ints without forking"""
    if not isinstance(c, SymBool):
        return a if c else b
    return SymInt(z3.If(c.t, _it(a), _it(b)))


# ------------------------------------------------------------------------------------------------
#  SymInt
# ------------------------------------------------------------------------------------------------
def _is_pow2m1(c):
    return c >= 0 and (c & (c + 1)) == 0


class SymInt:
    __slots__ = ('t',)

    def __init__(self, t):
        self.t = t

    def __hash__(self):
        return hash(concretize(self))

    def __repr__(self):
        return MARK + '<int>'
    __str__ = __repr__

    def __format__(self, spec):
        return MARK + '<int>'

    def __bool__(self):
        _check_abort()
        return CUR.branch(self.t != 0)

    def __index__(self):
        return concretize(self)

    def __int__(self):
        return concretize(self)

    def _degrade(self, what):
        """Unsupported operation: fall back to concretisation (path marked degraded)."""
        CUR.degraded += 1
        CUR.notes.add('degraded: ' + what)
        return concretize(self, cap=8, degrade=True)

    def _bin(self, o, f, real_f=None):
        if isinstance(o, (SymReal, float, Fraction)):
            return getattr(SymReal(z3.ToReal(self.t)), real_f)(o) if real_f else NotImplemented
        ot = _it(o)
        if ot is NotImplemented:
            return NotImplemented
        return SymInt(f(self.t, ot))

    def _rbin(self, o, f, real_f=None):
        if isinstance(o, (float, Fraction)):
            return getattr(SymReal(z3.ToReal(self.t)), real_f)(o) if real_f else NotImplemented
        ot = _it(o)
        if ot is NotImplemented:
            return NotImplemented
        return SymInt(f(ot, self.t))

    def __add__(self, o): return self._bin(o, lambda a, b: a + b, '__add__')
    def __radd__(self, o): return self._rbin(o, lambda a, b: a + b, '__radd__')
    def __sub__(self, o): return self._bin(o, lambda a, b: a - b, '__sub__')
    def __rsub__(self, o): return self._rbin(o, lambda a, b: a - b, '__rsub__')

    def __mul__(self, o):
        if isinstance(o, SymInt):
            CUR.notes.add('nonlinear: symbolic*symbolic')
        return self._bin(o, lambda a, b: a * b, '__mul__')

    def __rmul__(self, o): return self._rbin(o, lambda a, b: a * b, '__rmul__')
    def __neg__(self): return SymInt(-self.t)
    def __pos__(self): return self

    def __abs__(self):
        return SymInt(z3.If(self.t >= 0, self.t, -self.t))

    def __floordiv__(self, o):
        if isinstance(o, int) and not isinstance(o, bool) and o > 0:
            return SymInt(self.t / o)
        return self._degrade('floordiv') // o

    def __mod__(self, o):
        if isinstance(o, int) and not isinstance(o, bool) and o > 0:
            return SymInt(self.t % o)
        return self._degrade('mod') % o

    def __truediv__(self, o):
        return SymReal(z3.ToReal(self.t)) / o

    def _and_const(self, m):
        """x & m for a constant m >= 0 and x proven >= 0: sum over the runs of one-bits of m"""
        if m == 0:
            return 0
        t = None
        bit = 0
        while (m >> bit):
            if (m >> bit) & 1:
                hi = bit
                while (m >> (hi + 1)) & 1:
                    hi += 1
                w = hi - bit + 1
                part = ((self.t / (1 << bit)) % (1 << w)) * (1 << bit) if bit else self.t % (1 << w)
                t = part if t is None else t + part
                bit = hi + 1
            else:
                bit += 1
        return SymInt(t)

    def __and__(self, o):
        if isinstance(o, int) and not isinstance(o, bool) and o >= 0:
            if _is_pow2m1(o):
                return SymInt(self.t % (o + 1))       # also right for negative x (python's infinite two's complement)
            if CUR.implied(self.t >= 0):
                return self._and_const(o)
        return self._degrade('and') & o
    __rand__ = __and__

    def __or__(self, o):
        if isinstance(o, int) and not isinstance(o, bool) and o >= 0 and CUR.implied(self.t >= 0):
            return self + o - self._and_const(o)
        return self._degrade('or') | o
    __ror__ = __or__

    def __xor__(self, o):
        if isinstance(o, int) and not isinstance(o, bool) and o >= 0 and CUR.implied(self.t >= 0):
            if _is_pow2m1(o) and CUR.implied(self.t <= o):
                return SymInt(o - self.t)
            return self + o - 2 * self._and_const(o)
        return self._degrade('xor') ^ o
    __rxor__ = __xor__

    def __rshift__(self, o):
        if isinstance(o, int) and o >= 0:
            return SymInt(self.t / (1 << o))
        return self._degrade('rshift') >> o

    def __lshift__(self, o):
        if isinstance(o, int) and o >= 0:
            return SymInt(self.t * (1 << o))
        return self._degrade('lshift') << o

    def _cmp(self, o, f, rf):
        if isinstance(o, (SymReal, float, Fraction)):
            return SymBool(rf(z3.ToReal(self.t), _rt(o)))
        ot = _it(o)
        if ot is NotImplemented:
            return NotImplemented
        return SymBool(f(self.t, ot))

    def __eq__(self, o):
        r = self._cmp(o, lambda a, b: a == b, lambda a, b: a == b)
        return False if r is NotImplemented else r

    def __ne__(self, o):
        r = self._cmp(o, lambda a, b: a != b, lambda a, b: a != b)
        return True if r is NotImplemented else r

    def __lt__(self, o): return self._cmp(o, lambda a, b: a < b, lambda a, b: a < b)
    def __le__(self, o): return self._cmp(o, lambda a, b: a <= b, lambda a, b: a <= b)
    def __gt__(self, o): return self._cmp(o, lambda a, b: a > b, lambda a, b: a > b)
    def __ge__(self, o): return self._cmp(o, lambda a, b: a >= b, lambda a, b: a >= b)


# ------------------------------------------------------------------------------------------------
#  SymReal (clock readings, timeouts)
# ------------------------------------------------------------------------------------------------
class SymReal:
    __slots__ = ('t',)
    __hash__ = None

    def __init__(self, t):
        self.t = t

    def __repr__(self):
        return MARK + '<real>'
    __str__ = __repr__

    def __format__(self, spec):
        return MARK + '<real>'

    def __bool__(self):
        _check_abort()
        return CUR.branch(self.t != 0)

    def _bin(self, o, f):
        ot = _rt(o)
        if ot is NotImplemented:
            return NotImplemented
        return SymReal(f(self.t, ot))

    def _rbin(self, o, f):
        ot = _rt(o)
        if ot is NotImplemented:
            return NotImplemented
        return SymReal(f(ot, self.t))

    def __add__(self, o): return self._bin(o, lambda a, b: a + b)
    def __radd__(self, o): return self._rbin(o, lambda a, b: a + b)
    def __sub__(self, o): return self._bin(o, lambda a, b: a - b)
    def __rsub__(self, o): return self._rbin(o, lambda a, b: a - b)

    def __mul__(self, o):
        if isinstance(o, (SymReal, SymInt)):
            CUR.notes.add('nonlinear: symbolic*symbolic')
        return self._bin(o, lambda a, b: a * b)

    def __rmul__(self, o): return self._rbin(o, lambda a, b: a * b)
    def __neg__(self): return SymReal(-self.t)

    def __truediv__(self, o):
        if isinstance(o, (int, float, Fraction)) and o != 0:
            return SymReal(self.t / _rt(o))
        raise Unsupported('real division by symbolic')

    def _cmp(self, o, f):
        ot = _rt(o)
        if ot is NotImplemented:
            return NotImplemented
        return SymBool(f(self.t, ot))

    def __eq__(self, o):
        r = self._cmp(o, lambda a, b: a == b)
        return False if r is NotImplemented else r

    def __ne__(self, o):
        r = self._cmp(o, lambda a, b: a != b)
        return True if r is NotImplemented else r

    def __lt__(self, o): return self._cmp(o, lambda a, b: a < b)
    def __le__(self, o): return self._cmp(o, lambda a, b: a <= b)
    def __gt__(self, o): return self._cmp(o, lambda a, b: a > b)
    def __ge__(self, o): return self._cmp(o, lambda a, b: a >= b)

    def trunc(self):
        """int(x): truncation towards zero"""
        fl = z3.ToInt(self.t)
        neg = -z3.ToInt(-self.t)
        return SymInt(z3.If(self.t >= 0, fl, neg))


def rmin(a, b):
    """min of two reals without forking (for oracles)"""
    if isinstance(a, SymReal) or isinstance(b, SymReal):
        return SymReal(z3.If(_rt(a) <= _rt(b), _rt(a), _rt(b)))
    return min(a, b)


def rmax(a, b):
    if isinstance(a, SymReal) or isinstance(b, SymReal):
        return SymReal(z3.If(_rt(a) >= _rt(b), _rt(a), _rt(b)))
    return max(a, b)


# ------------------------------------------------------------------------------------------------
#  SymBytes / SymByteArray : concrete length, real bytes + sparse overlay of symbolic items
# ------------------------------------------------------------------------------------------------
def _parts(o):
    """-> (base bytes-like, overlay dict) for any bytes-like or iterable of items, else None"""
    if isinstance(o, SymBytes):
        return o.base, o.ov
    if isinstance(o, (bytes, bytearray, memoryview)):
        return bytes(o), {}
    return None


def _from_items(items):
    base = bytearray(len(items))
    ov = {}
    for i, x in enumerate(items):
        if isinstance(x, SymInt):
            ov[i] = x.t
        else:
            base[i] = x
    return base, ov


class SymBytes:
    """Immutable byte string of concrete length; item i is base[i] unless i in ov (z3 Int term in 0..255)."""
    __slots__ = ('base', 'ov')
    __hash__ = None
    mutable = False

    def __init__(self, base=b'', ov=None):
        self.base = bytes(base) if not self.mutable else bytearray(base)
        self.ov = dict(ov) if ov else {}

    @classmethod
    def of(cls, items):
        base, ov = _from_items(list(items))
        return cls(base, ov)

    def norm(self):
        """the real bytes/bytearray object when fully concrete, else self"""
        if not self.ov:
            return bytearray(self.base) if self.mutable else bytes(self.base)
        return self

    def items(self):
        ov = self.ov
        if not ov:
            return list(self.base)
        out = list(self.base)
        for i, t in ov.items():
            out[i] = SymInt(t)
        return out

    def __len__(self):
        return len(self.base)

    def __iter__(self):
        return iter(self.items())

    def __bool__(self):
        return len(self.base) > 0

    def __repr__(self):
        if not self.ov:
            return repr(self.norm())
        return MARK + '<bytes len=%d>' % len(self.base)
    __str__ = __repr__

    def __format__(self, spec):
        return repr(self)

    def __getitem__(self, i):
        if isinstance(i, slice):
            start, stop, step = i.indices(len(self.base))
            if step != 1:
                return type(self).of(self.items()[i])
            if stop < start:
                stop = start
            if self.ov:
                ov = {k - start: t for k, t in self.ov.items() if start <= k < stop}
            else:
                ov = None
            return type(self)(self.base[start:stop], ov)
        i = i.__index__()
        if i < 0:
            i += len(self.base)
        if not 0 <= i < len(self.base):
            raise IndexError('index out of range')
        t = self.ov.get(i)
        return SymInt(t) if t is not None else self.base[i]

    def _concat(self, a, b, cls):
        (ab, ao), (bb, bo) = a, b
        ov = dict(ao)
        n = len(ab)
        for k, t in bo.items():
            ov[k + n] = t
        return cls(bytes(ab) + bytes(bb), ov)

    def __add__(self, o):
        p = _parts(o)
        if p is None:
            return NotImplemented
        return self._concat((self.base, self.ov), p, type(self))

    def __radd__(self, o):
        p = _parts(o)
        if p is None:
            return NotImplemented
        cls = SymByteArray if isinstance(o, bytearray) else SymBytes
        return self._concat(p, (self.base, self.ov), cls)

    def __mul__(self, n):
        return type(self).of(self.items() * n)

    def __mod__(self, args):
        """printf-style formatting with a symbolic format string: forks on 'is this byte a %'; without any directive the
        result is the string itself (or TypeError if arguments were given), with one the bytes are enumerated"""
        if not self.ov:
            return bytes(self.base) % args
        has_pct = False
        for it in self.items():
            if bool(it == 37):
                has_pct = True
                break
        if has_pct:
            return concrete_bytes(self) % args
        if args == () or args == b'' and False:
            return type(self)(self.base, self.ov)
        if isinstance(args, tuple) and len(args) == 0:
            return type(self)(self.base, self.ov)
        raise TypeError('not all arguments converted during bytes formatting')

    def __eq__(self, o):
        p = _parts(o)
        if p is None:
            return False
        ob, oo = p
        if len(ob) != len(self.base):
            return False
        if not self.ov and not oo:
            return bytes(self.base) == bytes(ob)
        pos = set(self.ov) | set(oo)
        a = bytearray(self.base)
        b = bytearray(ob)
        for k in pos:
            a[k] = 0
            b[k] = 0
        if a != b:
            return False
        conj = []
        for k in sorted(pos):
            ta = self.ov.get(k)
            tb = oo.get(k)
            ta = ta if ta is not None else z3.IntVal(self.base[k])
            tb = tb if tb is not None else z3.IntVal(ob[k])
            if ta is tb or ta.eq(tb):
                continue
            conj.append(ta == tb)
        if not conj:
            return True
        return SymBool(z3.And(*conj) if len(conj) > 1 else conj[0])

    def __ne__(self, o):
        r = self.__eq__(o)
        if isinstance(r, SymBool):
            return ~r
        return not r

    def __contains__(self, x):
        if isinstance(x, (int, SymInt)):
            for it in self.items():
                if it == x:
                    return True
            return False
        p = _parts(x)
        if p is None:
            raise TypeError('a bytes-like object is required')
        n = len(p[0])
        sub = SymBytes(*p)
        for s in range(0, len(self.base) - n + 1):
            if self[s:s + n] == sub:
                return True
        return False

    def startswith(self, prefix):
        return bool(self[:len(prefix)] == prefix)

    def endswith(self, suffix):
        n = len(suffix)
        return bool(self[len(self) - n:] == suffix) if n else True

    def decode(self, encoding='utf-8', errors='strict'):
        if not self.ov:
            return bytes(self.base).decode(encoding, errors)
        enc = encoding.lower().replace('-', '').replace('_', '')
        if enc not in ('utf8', 'utf8sig'):
            raise Unsupported('decode ' + encoding)
        if CUR.abstract_decode:
            return AbsStr([('U', enc + '/' + errors, self.items())])
        from . import utf8
        items = self.items()
        if enc == 'utf8sig' and len(items) >= 3 and bool(items[0] == 0xEF) and bool(items[1] == 0xBB) and bool(items[2] == 0xBF):
            items = items[3:]          # the BOM is swallowed
        return utf8.decode(items, errors)

    def hex(self):
        if not self.ov:
            return bytes(self.base).hex()
        raise Unsupported('hex of symbolic bytes')

    def _degrade(self):
        """Symbolic bytes reached C code: continue on solver-chosen representative values (path marked degraded)."""
        if CUR is None:
            raise Unsupported('symbolic bytes outside an exploration')
        CUR.degraded += 1
        CUR.notes.add('degraded: symbolic bytes reached C code')
        b = bytearray(self.base)
        for k in sorted(self.ov):
            b[k] = concretize(SymInt(self.ov[k]), degrade=True)
        return bytes(b)

    def __bytes__(self):
        if not self.ov:
            return bytes(self.base)
        return self._degrade()

    def __buffer__(self, flags):
        if not self.ov:
            # a live view for the mutable flavour (aliasing through memoryview must behave as with a real bytearray)
            return memoryview(self.base) if self.mutable else memoryview(bytes(self.base))
        return memoryview(self._degrade())


class SymByteArray(SymBytes):
    __slots__ = ()
    mutable = True

    def __iadd__(self, o):
        p = _parts(o)
        if p is None:
            return NotImplemented
        n = len(self.base)
        self.base += p[0]
        for k, t in p[1].items():
            self.ov[k + n] = t
        return self

    def extend(self, o):
        self.__iadd__(o if _parts(o) is not None else bytes(o))

    def append(self, x):
        if isinstance(x, SymInt):
            self.ov[len(self.base)] = x.t
            self.base.append(0)
        else:
            self.base.append(x)

    def __setitem__(self, i, v):
        if isinstance(i, slice):
            start, stop, step = i.indices(len(self.base))
            if step != 1:
                raise Unsupported('extended slice assignment')
            if stop < start:
                stop = start
            p = _parts(v)
            if p is None:
                p = _from_items(list(v))
            vb, vo = p
            delta = len(vb) - (stop - start)
            if self.ov:
                ov = {}
                for k, t in self.ov.items():
                    if k < start:
                        ov[k] = t
                    elif k >= stop:
                        ov[k + delta] = t
                self.ov = ov
            self.base[start:stop] = vb
            for k, t in vo.items():
                self.ov[k + start] = t
            return
        i = i.__index__()
        if i < 0:
            i += len(self.base)
        if isinstance(v, SymInt):
            self.ov[i] = v.t
            self.base[i] = 0
        else:
            self.ov.pop(i, None)
            self.base[i] = v

    def __delitem__(self, i):
        if isinstance(i, slice):
            self[i] = b''
            return
        i = i.__index__()
        self[i:i + 1] = b''

    def clear(self):
        self.base = bytearray()
        self.ov = {}


def as_sym(x):
    """any bytes-like -> SymBytes (immutable)"""
    if isinstance(x, SymBytes):
        return SymBytes(x.base, x.ov)
    return SymBytes(bytes(x))


def bjoin(parts):
    out = SymBytes()
    for p in parts:
        out = out + p
    return out


def norm(x):
    return x.norm() if isinstance(x, SymBytes) else x


class LenBytes:
    """Content-free byte string with symbolic length (only for the inductive size-arithmetic harness)."""

    def __init__(self, n):
        self.n = n

    def __sx_len__(self):
        return self.n

    def __bool__(self):
        return bool(self.n > 0) if isinstance(self.n, SymInt) else self.n > 0

    def __getitem__(self, sl):
        if not isinstance(sl, slice):
            return CUR.int('lenbyte', 0, 255)       # some byte of the content-free string
        if sl.step not in (None, 1):
            raise Unsupported('LenBytes extended slicing')
        n = self.n
        start = 0 if sl.start is None else sl.start
        stop = n if sl.stop is None else sl.stop
        # python slice clamping, for non-negative bounds
        stop = ite(stop > n, n, stop) if isinstance(stop > n, SymBool) else (n if stop > n else stop)
        start = ite(start > stop, stop, start) if isinstance(start > stop, SymBool) else (stop if start > stop else start)
        return LenBytes(stop - start)

    def __radd__(self, o):
        return LenBytes(len_shim(o) + self.n)

    def __add__(self, o):
        return LenBytes(self.n + len_shim(o))


# ------------------------------------------------------------------------------------------------
#  strings produced by decoding symbolic bytes
# ------------------------------------------------------------------------------------------------
class SymStr:
    """A string as a list of code points (ints or SymInt); produced by the exact UTF-8 model."""
    __hash__ = None

    def __init__(self, cps):
        self.cps = list(cps)

    def __len__(self):
        return len(self.cps)

    def __add__(self, o):
        if isinstance(o, SymStr):
            return SymStr(self.cps + o.cps)
        if isinstance(o, str):
            return SymStr(self.cps + [ord(c) for c in o])
        return NotImplemented

    def __radd__(self, o):
        if isinstance(o, str):
            return SymStr([ord(c) for c in o] + self.cps)
        return NotImplemented

    def __eq__(self, o):
        if isinstance(o, str):
            o = SymStr([ord(c) for c in o])
        if not isinstance(o, SymStr):
            return False
        if len(o.cps) != len(self.cps):
            return False
        return sand(*[(a == b) for a, b in zip(self.cps, o.cps)])

    def __ne__(self, o):
        return snot(self.__eq__(o))

    def __repr__(self):
        return MARK + '<str len=%d>' % len(self.cps)
    __str__ = __repr__

    def __format__(self, spec):
        return repr(self)

    def encode(self, encoding='utf-8', errors='strict'):
        """str.encode for ascii / latin-1 / utf-8 (forks on the class of each symbolic code point)"""
        enc = encoding.lower().replace('-', '').replace('_', '')
        out = []
        for i, c in enumerate(self.cps):
            if enc in ('ascii', 'usascii'):
                if not (c < 128):
                    if errors == 'strict':
                        raise UnicodeEncodeError('ascii', '?', i, i + 1, 'ordinal not in range(128)')
                    out.append(63)
                    continue
                out.append(c)
            elif enc in ('latin1', 'iso88591'):
                if not (c < 256):
                    raise UnicodeEncodeError('latin-1', '?', i, i + 1, 'ordinal not in range(256)')
                out.append(c)
            elif enc == 'utf8':
                if c < 0x80:
                    out.append(c)
                elif c < 0x800:
                    out += [0xC0 + c // 64, 0x80 + c % 64]
                elif c < 0x10000:
                    if (c >= 0xD800) and (c <= 0xDFFF):
                        raise UnicodeEncodeError('utf-8', '?', i, i + 1, 'surrogates not allowed')
                    out += [0xE0 + c // 4096, 0x80 + (c // 64) % 64, 0x80 + c % 64]
                else:
                    out += [0xF0 + c // 262144, 0x80 + (c // 4096) % 64, 0x80 + (c // 64) % 64, 0x80 + c % 64]
            else:
                raise Unsupported('encode ' + encoding)
        return SymBytes.of(out)

    def __contains__(self, sub):
        if isinstance(sub, str):
            sub = SymStr([ord(c) for c in sub])
        n = len(sub.cps)
        for s in range(0, len(self.cps) - n + 1):
            if SymStr(self.cps[s:s + n]) == sub:
                return True
        return False


class AbsStr:
    """decode() as an uninterpreted function: a sequence of segments ('U', errors, byte items) or ('S', str).

    Two AbsStr are provably equal when they have the same segment structure with equal arguments
    (congruence).  This is sufficient, not necessary: a `sat` answer is refined with the exact model.
    """
    __hash__ = None

    def __init__(self, segs):
        self.segs = [s for s in segs if not (s[0] == 'S' and s[1] == '')]

    def __add__(self, o):
        if isinstance(o, AbsStr):
            return AbsStr(self.segs + o.segs)
        if isinstance(o, str):
            return AbsStr(self.segs + [('S', o)])
        return NotImplemented

    def __radd__(self, o):
        if isinstance(o, str):
            return AbsStr([('S', o)] + self.segs)
        return NotImplemented

    def __eq__(self, o):
        if isinstance(o, str):
            o = AbsStr([('S', o)])
        if not isinstance(o, AbsStr):
            return False
        if len(self.segs) != len(o.segs):
            return False
        conj = []
        for a, b in zip(self.segs, o.segs):
            if a[0] != b[0]:
                return False
            if a[0] == 'S':
                if a[1] != b[1]:
                    return False
            else:
                if a[1] != b[1] or len(a[2]) != len(b[2]):
                    return False
                conj.append(SymBytes.of(a[2]) == SymBytes.of(b[2]))
        return sand(*conj)

    def __ne__(self, o):
        return snot(self.__eq__(o))

    def __repr__(self):
        return MARK + '<absstr>'
    __str__ = __repr__

    def __format__(self, spec):
        return repr(self)


# ------------------------------------------------------------------------------------------------
#  SymDict
# ------------------------------------------------------------------------------------------------
class SymDict:
    """Insertion-ordered association list; keys may be SymInt (lookup = equality with stored keys, may fork).

    With all-concrete hashable keys it behaves as dict.
    """
    __hash__ = None

    def __init__(self, pairs=()):
        self._k = []
        self._v = []
        self._idx = {}    # fast path: concrete hashable key -> position
        self._symkeys = 0
        for k, v in pairs:
            self[k] = v

    def _find(self, k):
        if not isinstance(k, SymInt) and not self._symkeys:
            try:
                return self._idx.get(k, -1)
            except TypeError:
                pass
        for i, kk in enumerate(self._k):
            if type(kk) is not SymInt and type(k) is not SymInt:
                if kk == k:
                    return i
                continue
            if kk == k:      # may fork
                return i
        return -1

    def _reindex(self):
        self._idx = {}
        self._symkeys = 0
        for i, k in enumerate(self._k):
            if isinstance(k, SymInt):
                self._symkeys += 1
            else:
                self._idx[k] = i

    def __contains__(self, k):
        return self._find(k) >= 0

    def __getitem__(self, k):
        i = self._find(k)
        if i < 0:
            raise KeyError(k)
        return self._v[i]

    def get(self, k, d=None):
        i = self._find(k)
        return d if i < 0 else self._v[i]

    def __setitem__(self, k, v):
        i = self._find(k)
        if i < 0:
            self._k.append(k)
            self._v.append(v)
            if isinstance(k, SymInt):
                self._symkeys += 1
            else:
                self._idx[k] = len(self._k) - 1
        else:
            self._v[i] = v

    def setdefault(self, k, d=None):
        i = self._find(k)
        if i < 0:
            self[k] = d
            return d
        return self._v[i]

    def pop(self, k, *d):
        i = self._find(k)
        if i < 0:
            if d:
                return d[0]
            raise KeyError(k)
        v = self._v[i]
        del self._k[i]
        del self._v[i]
        self._reindex()
        return v

    def __delitem__(self, k):
        i = self._find(k)
        if i < 0:
            raise KeyError(k)
        del self._k[i]
        del self._v[i]
        self._reindex()

    def clear(self):
        self._k = []
        self._v = []
        self._reindex()

    def update(self, other):
        for k, v in (other.items() if hasattr(other, 'items') else other):
            self[k] = v

    def __len__(self):
        return len(self._k)

    def __bool__(self):
        return bool(self._k)

    def __iter__(self):
        return iter(list(self._k))

    def keys(self):
        return list(self._k)

    def values(self):
        return list(self._v)

    def items(self):
        return list(zip(self._k, self._v))

    def __eq__(self, o):
        if isinstance(o, SymDict):
            return self.items() == o.items()
        if isinstance(o, dict):
            if self._symkeys:
                return False
            return dict(self.items()) == o
        return NotImplemented

    def __ne__(self, o):
        r = self.__eq__(o)
        return r if r is NotImplemented else not r

    def __repr__(self):
        return repr(dict(zip(map(repr, self._k), self._v))) if self._symkeys else repr(dict(self.items()))

    def copy(self):
        return SymDict(self.items())


# ------------------------------------------------------------------------------------------------
#  shims injected into the loaded modules (builtins that must accept proxies)
# ------------------------------------------------------------------------------------------------
class _BytesMeta(type):
    def __instancecheck__(cls, obj):
        if isinstance(obj, cls._real):
            return True
        if cls._real is bytes:
            return type(obj) is SymBytes or type(obj) is LenBytes
        return type(obj) is SymByteArray

    def __subclasscheck__(cls, sub):
        return issubclass(sub, cls._real)

    def __eq__(cls, other):
        return other is cls or other is cls._real

    def __hash__(cls):
        return hash(cls._real)


class bytes_shim(metaclass=_BytesMeta):
    _real = bytes

    def __new__(cls, *a, **k):
        if a and isinstance(a[0], LenBytes):
            return a[0]
        if a and isinstance(a[0], SymBytes):
            if not a[0].ov:
                return bytes(a[0].base)
            return SymBytes(a[0].base, a[0].ov)
        if CUR is not None and a and isinstance(a[0], (list, tuple)) and any(isinstance(x, SymInt) for x in a[0]):
            return SymBytes.of(a[0])
        return bytes(*a, **k)

    fromhex = bytes.fromhex
    maketrans = bytes.maketrans


class bytearray_shim(metaclass=_BytesMeta):
    _real = bytearray

    def __new__(cls, *a, **k):
        if CUR is None:
            if a and isinstance(a[0], SymBytes):
                return bytearray(a[0].base)
            return bytearray(*a, **k)
        if a and isinstance(a[0], SymBytes):
            return SymByteArray(a[0].base, a[0].ov)
        if a and isinstance(a[0], (list, tuple)) and any(isinstance(x, SymInt) for x in a[0]):
            return SymByteArray.of(a[0])
        if a and isinstance(a[0], SymInt):
            return SymByteArray(bytearray(concretize(a[0])))
        return SymByteArray(bytearray(*a, **k))

    fromhex = bytearray.fromhex


class _IntMeta(type):
    def __instancecheck__(cls, obj):
        return isinstance(obj, int) or type(obj) is SymInt

    def __subclasscheck__(cls, sub):
        return issubclass(sub, int)

    def __eq__(cls, other):
        return other is cls or other is int

    def __hash__(cls):
        return hash(int)


class int_shim(metaclass=_IntMeta):
    def __new__(cls, *a, **k):
        if a:
            x = a[0]
            if isinstance(x, SymInt):
                return x
            if isinstance(x, SymReal):
                return x.trunc()
            if isinstance(x, Fraction):
                return int(x)
        return int(*a, **k)

    from_bytes = int.from_bytes


def chr_shim(x):
    if isinstance(x, SymInt):
        if CUR is not None and CUR.implied(z3.And(x.t >= 0, x.t <= 0x10FFFF)):
            return SymStr([x])
        return MARK + '<chr>'
    return chr(x)


def len_shim(x):
    f = getattr(type(x), '__sx_len__', None)
    if f is not None:
        return f(x)
    return len(x)


def sum_shim(xs, start=0):
    if isinstance(xs, LenBytes):
        # content-free bytes: the byte sum is an unconstrained value in [0, 255*len]
        v = CUR.int('lensum', 0, None)
        CUR.add(v.t <= 255 * _it(xs.n))
        return v + start
    if isinstance(xs, SymBytes):
        if not xs.ov:
            return sum(xs.base) + start
        total = sum(xs.base) + start      # overlay positions hold 0 in base
        t = z3.IntVal(total)
        terms = [xs.ov[k] for k in sorted(xs.ov)]
        return SymInt(z3.Sum([t] + terms))
    return sum(xs, start)


def join_shim(sep, parts):
    parts = list(parts)
    if isinstance(sep, str):
        if not any(isinstance(p, (SymStr, AbsStr)) for p in parts):
            return sep.join(parts)
        out = ''
        for i, p in enumerate(parts):
            if i and sep:
                out = out + sep
            if not isinstance(p, (str, SymStr, AbsStr)):
                raise TypeError('sequence item %d: expected str instance' % i)
            out = out + p
        return out
    if not any(isinstance(p, SymBytes) for p in parts):
        return sep.join(parts)
    out = SymBytes()
    for i, p in enumerate(parts):
        if i and sep:
            out = out + sep
        if not isinstance(p, (bytes, bytearray, SymBytes)):
            raise TypeError('sequence item %d: expected a bytes-like object' % i)
        out = out + p
    return out.norm() if not out.ov else out


def sformat_shim(template, *args, **kwargs):
    """`<str literal>.format(...)` where an argument may be a string produced from symbolic bytes"""
    if kwargs or not any(isinstance(a, (SymStr, AbsStr)) for a in args):
        return template.format(*args, **kwargs)
    pieces = _re.split(r'(\{\d*\})', template)
    out = ''
    auto = 0
    for p in pieces:
        m = _re.fullmatch(r'\{(\d*)\}', p)
        if m:
            idx = int(m.group(1)) if m.group(1) else auto
            auto += 1
            a = args[idx]
            out = out + (a if isinstance(a, (str, SymStr, AbsStr)) else format(a))
        else:
            if '{' in p.replace('{{', '') or '}' in p.replace('}}', ''):
                return template.format(*[format(a) if isinstance(a, (SymStr, AbsStr)) else a for a in args])
            out = out + p.replace('{{', '{').replace('}}', '}')
    return out


def fmt_shim(left, right):
    """`literal % right` where right may contain proxies."""
    args = right if isinstance(right, tuple) else (right,)
    if not any(isinstance(a, (SymInt, SymReal, SymBytes, SymStr, AbsStr, SymBool, LenBytes)) for a in args):
        return left % right
    if isinstance(left, bytes):
        # only %s with bytes-like arguments is modelled exactly
        pieces = _re.split(rb'(%s)', left)
        if left.count(b'%') == left.count(b'%s') and left.count(b'%s') == len(args) and all(isinstance(a, (bytes, bytearray, SymBytes)) for a in args):
            out = SymBytes()
            it = iter(args)
            for p in pieces:
                out = out + (next(it) if p == b'%s' else p)
            return out.norm() if not out.ov else out
        return MARKB + b'<fmt>'
    return MARK + '<fmt>'


_SIZES = {'I': 4, 'i': 4, 'L': 4, 'l': 4, 'H': 2, 'h': 2, 'B': 1, 'b': 1, 'Q': 8, 'q': 8}


class struct_shim:
    """struct for little-endian integer formats ('<' + counts + codes in IiLlHhBbQq); everything else -> real struct."""
    _real = _struct
    error = _struct.error
    Struct = _struct.Struct

    @staticmethod
    def calcsize(fmt):
        return _struct.calcsize(fmt)

    @staticmethod
    def _parse(fmt):
        if isinstance(fmt, SymBytes):
            fmt = fmt.norm()
        if isinstance(fmt, (bytes, bytearray)):
            fmt = bytes(fmt).decode()
        if not isinstance(fmt, str) or not fmt.startswith('<'):
            return None
        codes = []
        for cnt, c in _re.findall(r'(\d*)([A-Za-z?])', fmt[1:].replace(' ', '')):
            if c not in _SIZES:
                return None
            codes += [c] * (int(cnt) if cnt else 1)
        if ''.join(_re.findall(r'\d*[A-Za-z?]', fmt[1:].replace(' ', ''))) != fmt[1:].replace(' ', ''):
            return None
        return codes

    @staticmethod
    def pack(fmt, *vals):
        if not any(isinstance(v, (SymInt, SymReal)) for v in vals):
            return _struct.pack(fmt, *vals)
        codes = struct_shim._parse(fmt)
        if codes is None:
            raise Unsupported('struct.pack fmt %r with symbolic' % (fmt,))
        if len(vals) != len(codes):
            raise _struct.error('pack expected %d items for packing (got %d)' % (len(codes), len(vals)))
        out = SymBytes()
        for c, v in zip(codes, vals):
            if isinstance(v, SymReal):
                raise _struct.error('required argument is not an integer')
            size = _SIZES[c]
            if isinstance(v, SymInt):
                bits = 8 * size
                if c.islower():
                    lo, hi = -(1 << (bits - 1)), (1 << (bits - 1)) - 1
                else:
                    lo, hi = 0, (1 << bits) - 1
                if not (v >= lo) or not (v <= hi):   # forks, like the real range check
                    raise _struct.error('argument out of range')
                u = v if not c.islower() else SymInt(z3.If(v.t < 0, v.t + (1 << bits), v.t))
                if size == 4:
                    out = out + CUR.le32(u)
                else:
                    out = out + CUR.le_bytes(u, size)
            else:
                out = out + _struct.pack('<' + c, v)
        return out

    @staticmethod
    def unpack(fmt, buf):
        if not isinstance(buf, SymBytes):
            return _struct.unpack(fmt, buf)
        if not buf.ov:
            return _struct.unpack(fmt, bytes(buf.base))
        codes = struct_shim._parse(fmt)
        if codes is None:
            raise Unsupported('struct.unpack fmt %r with symbolic' % (fmt,))
        total = sum(_SIZES[c] for c in codes)
        if len(buf) != total:
            raise _struct.error('unpack requires a buffer of %d bytes' % total)
        res = []
        off = 0
        for c in codes:
            size = _SIZES[c]
            if size == 4:
                u = word_le(buf, off)
            else:
                u = uint_le(buf, off, size)
            if c.islower() and isinstance(u, SymInt):
                bits = 8 * size
                u = SymInt(z3.If(u.t >= (1 << (bits - 1)), u.t - (1 << bits), u.t))
            elif c.islower():
                bits = 8 * size
                u = u - (1 << bits) if u >= (1 << (bits - 1)) else u
            res.append(u)
            off += size
        return tuple(res)


def uint_le(buf, off, size):
    b = [buf.ov.get(off + j) for j in range(size)] if isinstance(buf, SymBytes) else [None] * size
    base = buf.base if isinstance(buf, SymBytes) else buf
    if all(x is None for x in b):
        return int.from_bytes(bytes(base[off:off + size]), 'little')
    t = None
    for j in range(size):
        x = b[j] if b[j] is not None else z3.IntVal(base[off + j])
        x = x * (1 << (8 * j)) if j else x
        t = x if t is None else t + x
    return SymInt(z3.simplify(t))


def word_le(buf, off):
    """little-endian 32-bit word at buf[off:off+4] as int or SymInt (linear combination of bytes)"""
    if isinstance(buf, SymBytes) and buf.ov:
        b = [buf.ov.get(off + j) for j in range(4)]
        if any(x is not None for x in b):
            if CUR is not None and all(x is not None for x in b):
                back = CUR._le32_back.get(tuple(x.get_id() for x in b))
                if back is not None:
                    return back
            t = None
            for j in range(4):
                x = b[j] if b[j] is not None else z3.IntVal(buf.base[off + j])
                x = x * (1 << (8 * j)) if j else x
                t = x if t is None else t + x
            return SymInt(z3.simplify(t))
        return int.from_bytes(bytes(buf.base[off:off + 4]), 'little')
    base = buf.base if isinstance(buf, SymBytes) else buf
    return int.from_bytes(bytes(base[off:off + 4]), 'little')


# ------------------------------------------------------------------------------------------------
#  concretisation
# ------------------------------------------------------------------------------------------------
def concretize(x, cap=256, degrade=False):
    """Fork over every feasible value of SymInt x (bounded)."""
    if not isinstance(x, SymInt):
        return x
    _check_abort()
    return CUR.concretize(x.t, cap, degrade)


def concrete_bytes(x):
    """bytes-like with possibly symbolic items -> bytes, forking over item values (use sparingly)."""
    if isinstance(x, SymBytes):
        if not x.ov:
            return bytes(x.base)
        return bytes(concretize(i) for i in x.items())
    return bytes(x)


# ------------------------------------------------------------------------------------------------
#  Explorer
# ------------------------------------------------------------------------------------------------
class Failure:
    def __init__(self, label, values, choices, events, detail=None):
        self.label = label
        self.values = values
        self.choices = choices
        self.events = events
        self.detail = detail


class Explorer:
    """Symbolic-mode context: decides proxies' truth values, owns the path condition, enumerates paths."""
    symbolic = True

    def __init__(self, max_paths=20000, solver_timeout_ms=60000, abstract_decode=False, max_failures=8):
        self.max_failures = max_failures
        self.part = None                 # (i, n, depth): explore only the subtrees whose first `depth` finite choices hash to i mod n
        self.count_failure = None        # optional predicate: does this failure count towards max_failures?
        self.solver = z3.Solver()
        self.solver.set('timeout', solver_timeout_ms)
        self.max_paths = max_paths
        self.abstract_decode = abstract_decode
        self.trace = []          # decisions: [kind, taken, alternatives, extra]
        self.pos = 0
        # totals
        self.n_paths = 0
        self.n_decisions = 0
        self.n_queries = 0
        self.n_vcs = 0
        self.n_vcs_unsat = 0
        self.solver_s = 0.0
        self.unknown = 0
        self.degraded = 0
        self.capped = False
        self.notes = set()
        self.failures = []
        self.paths_reaching = 0
        self.cov = set()
        self.vc_dump = []        # smt2 strings of a few VCs (for the second-solver cross-check)
        self.vc_dump_limit = 0
        self.part_skipped = 0
        self._part_last = None
        self._part_ord = -1
        # per path
        self._reset_path()

    # ---- per-path state
    def _reset_path(self):
        self.pc_len = 0
        self.vars = {}           # name -> z3 var
        self.var_order = []
        self._names = {}
        self.choices = []
        self.events = []
        self.obs = []
        self.labels = []
        self.reached = False
        self._base_scopes = 0
        self._le32_back = {}
        self._le32_memo = {}
        self._keep = []
        self._fresh = 0
        self.path_failed = False

    # ---- solver
    def _check(self, *assumptions):
        t = _time.time()
        r = self.solver.check(*assumptions)
        self.solver_s += _time.time() - t
        self.n_queries += 1
        if r == z3.unknown:
            self.unknown += 1
        return r

    def add(self, c):
        self.solver.add(c)
        self.pc_len += 1

    def implied(self, cond):
        """pc => cond ?  (no fork)"""
        c = z3.simplify(cond)
        if z3.is_true(c):
            return True
        if z3.is_false(c):
            return False
        return self._check(z3.Not(c)) == z3.unsat

    def feasible(self, cond):
        c = z3.simplify(cond)
        if z3.is_true(c):
            return True
        if z3.is_false(c):
            return False
        return self._check(c) == z3.sat

    # ---- variables
    def _name(self, name):
        k = self._names.get(name, 0)
        self._names[name] = k + 1
        return '%s#%d' % (name, k)

    def int(self, name, lo=None, hi=None):
        full = self._name(name)
        v = z3.Int(full)
        self.vars[full] = v
        self.var_order.append(full)
        if lo is not None:
            self.add(v >= lo)
        if hi is not None:
            self.add(v <= hi)
        return SymInt(v)

    def real(self, name, lo=None, hi=None):
        full = self._name(name)
        v = z3.Real(full)
        self.vars[full] = v
        self.var_order.append(full)
        if lo is not None:
            self.add(v >= _rt(lo))
        if hi is not None:
            self.add(v <= _rt(hi))
        return SymReal(v)

    def bytes(self, name, n):
        full = self._name(name)
        ov = {}
        for i in range(n):
            nm = '%s[%d]' % (full, i)
            v = z3.Int(nm)
            self.vars[nm] = v
            self.var_order.append(nm)
            self.add(z3.And(v >= 0, v <= 255))
            ov[i] = v
        return SymBytes(bytes(n), ov)

    def _aux_byte(self):
        self._fresh += 1
        return z3.Int('aux!%d' % self._fresh)

    def le32(self, v):
        """4 little-endian bytes of SymInt v (assumed proven in range): fresh bytes + linear defining constraint.
        Memoised per term, so a value packed repeatedly (remote ids, checksums) costs one set of bytes per path."""
        key = v.t.get_id()
        hit = self._le32_memo.get(key)
        if hit is not None:
            return SymBytes(bytes(4), hit)
        bs = [self._aux_byte() for _ in range(4)]
        self.add(z3.And(bs[0] >= 0, bs[0] <= 255, bs[1] >= 0, bs[1] <= 255, bs[2] >= 0, bs[2] <= 255, bs[3] >= 0, bs[3] <= 255,
                        v.t == bs[0] + 256 * bs[1] + 65536 * bs[2] + 16777216 * bs[3]))
        self._le32_back[tuple(b.get_id() for b in bs)] = v
        self._keep.append((bs, v.t))
        ov = {i: b for i, b in enumerate(bs)}
        self._le32_memo[key] = ov
        return SymBytes(bytes(4), ov)

    def le_bytes(self, v, size):
        bs = [self._aux_byte() for _ in range(size)]
        self.add(z3.And(*([b >= 0 for b in bs] + [b <= 255 for b in bs] + [v.t == z3.Sum([bs[j] * (1 << (8 * j)) for j in range(size)])])))
        self._keep.append((bs, v.t))
        return SymBytes(bytes(size), {i: b for i, b in enumerate(bs)})

    # ---- decisions
    def _replay(self, kind):
        d = self.trace[self.pos]
        if d[0] != kind:
            raise HarnessError('nondeterministic re-execution: expected decision %r, met %r at %d' % (d[0], kind, self.pos))
        self.pos += 1
        self.n_decisions += 1
        return d

    def _record(self, kind, taken, alts, extra=None):
        self.trace.append([kind, taken, alts, extra])
        self.pos += 1
        self.n_decisions += 1

    def branch(self, cond):
        if z3.is_true(cond):
            return True
        if z3.is_false(cond):
            return False
        cond = z3.simplify(cond)
        if z3.is_true(cond):
            return True
        if z3.is_false(cond):
            return False
        if self.pos < len(self.trace):
            d = self._replay('b')
            self.add(cond if d[1] else z3.Not(cond))
            return d[1]
        rt = self._check(cond)
        if rt == z3.unsat:
            # pc is satisfiable by construction, so the negation holds
            self._record('b', False, [])
            self.add(z3.Not(cond))
            return False
        rf = self._check(z3.Not(cond))
        if rf == z3.unsat:
            self._record('b', True, [])
            self.add(cond)
            return True
        if rt == z3.unknown and rf == z3.unknown:
            self.notes.add('unknown at branch')
        self._record('b', True, [False])
        self.add(cond)
        return True

    def choose(self, n, label=''):
        """finite nondeterministic choice 0..n-1, explored exhaustively"""
        _check_abort()
        if n <= 1:
            self.choices.append(0)
            return 0
        if self.pos < len(self.trace):
            d = self._replay('c')
            v = d[1]
        else:
            self._record('c', 0, list(range(n - 1, 0, -1)))
            v = 0
        self.choices.append(v)
        if self.part is not None and len(self.choices) == self.part[2]:
            # round-robin over the distinct prefixes of length `depth` in depth-first order (every part sees the same order)
            pre = tuple(self.choices)
            if pre != self._part_last:
                self._part_last = pre
                self._part_ord += 1
            if self._part_ord % self.part[1] != self.part[0]:
                self.part_skipped += 1
                raise self._abort()
        return v

    def concretize(self, t, cap=256, degrade=False):
        for _ in range(cap + 1):
            ts = z3.simplify(t)
            if z3.is_int_value(ts):
                return ts.as_long()
            if self.pos < len(self.trace):
                d = self._replay('v')
                if d[1]:
                    self.add(t == d[3])
                    return d[3]
                self.add(t != d[3])
                continue
            if self._check() != z3.sat:
                raise self._abort()
            v = self.solver.model().eval(t, model_completion=True).as_long()
            if degrade:
                self._record('v', True, [], v)
                self.add(t == v)
                return v
            other = self._check(t != v) != z3.unsat
            self._record('v', True, [False] if other else [], v)
            self.add(t == v)
            return v
        self.capped = True
        self.notes.add('concretize cap hit')
        raise self._abort()

    def _abort(self):
        global ABORTED
        ABORTED = True
        return PathAbort()

    def assume(self, cond):
        if isinstance(cond, SymBool):
            c = z3.simplify(cond.t)
            if z3.is_true(c):
                return
            if not z3.is_false(c):
                self.add(c)
                if self._check() != z3.unsat:
                    return
            raise self._abort()
        if not cond:
            raise self._abort()

    # ---- property
    def check(self, prop, label, detail=None):
        """VC: pc => prop.  Returns True when proven on this path."""
        self.reached = True
        self.labels.append(label)
        self.n_vcs += 1
        if prop is True:
            self.n_vcs_unsat += 1
            return True
        if isinstance(prop, SymBool):
            p = z3.simplify(prop.t)
            if z3.is_true(p):
                self.n_vcs_unsat += 1
                return True
            neg = z3.Not(p)
        elif not prop:
            neg = None
        else:
            self.n_vcs_unsat += 1
            return True
        if neg is None:
            r = self._check()
        else:
            if len(self.vc_dump) < self.vc_dump_limit:
                s2 = z3.Solver()
                s2.add(self.solver.assertions())
                s2.add(neg)
                self.vc_dump.append((label, s2.to_smt2()))
            r = self._check(neg)
        if r == z3.unsat:
            self.n_vcs_unsat += 1
            return True
        if r == z3.unknown:
            self.notes.add('unknown VC: ' + label)
            return False
        if neg is not None:
            # get a model of pc & not prop
            self.solver.push()
            self.solver.add(neg)
            self.solver.check()
            m = self.solver.model()
            vals = self.model_values(m)
            self.solver.pop()
        else:
            vals = self.model_values(self.solver.model())
        self.path_failed = True
        self.failures.append(Failure(label, vals, list(self.choices), list(self.events), detail))
        return False

    def fail(self, label, detail=None):
        return self.check(False, label, detail)

    def model_values(self, m):
        out = {}
        for name in self.var_order:
            v = m.eval(self.vars[name], model_completion=True)
            if z3.is_int_value(v):
                out[name] = v.as_long()
            elif z3.is_rational_value(v):
                out[name] = '%d/%d' % (v.numerator_as_long(), v.denominator_as_long())
            else:
                out[name] = str(v)
        return out

    def path_model(self, diverse=None):
        """a model of the path condition; with diverse=<random.Random> the symbolic inputs are pushed away from z3's default
        (all-zero) values where the path condition allows it, so that native validation runs see varied data"""
        if self._check() != z3.sat:
            return None
        if diverse is None:
            return self.solver.model()
        self.solver.push()
        try:
            names = list(self.var_order)
            diverse.shuffle(names)
            tried = 0
            for nm in names:
                if tried >= 10:
                    break
                v = self.vars[nm]
                if not z3.is_int(v):
                    continue
                tried += 1
                cand = diverse.choice([1, 2, 0x41, 0x7F, 0x80, 0xC3, 0xE2, 0xFF, 0x100, 0xFFFF, 0x10000, 0x7FFFFFFF, 0x80000000, 0xFFFFFFFE, 0xFFFFFFFF])
                self.solver.push()
                self.solver.add(v == cand)
                if self._check() == z3.sat:
                    continue          # keep it (stay one level deeper)
                self.solver.pop()
                self.solver.push()
                self.solver.add(v != 0)
                if self._check() != z3.sat:
                    self.solver.pop()
            if self._check() != z3.sat:
                return None
            m = self.solver.model()
            # evaluate now: the model object stays valid after pop in z3py (it is a snapshot)
            return m
        finally:
            # pop everything pushed in this call
            while self.solver.num_scopes() > self._base_scopes:
                self.solver.pop()

    def observe(self, label, value):
        self.obs.append((label, value))

    def event(self, name):
        self.events.append(name)

    def covered(self, qualname):
        self.cov.add(qualname)

    # ---- main loop
    def explore(self, fn, on_path=None):
        """Run fn(self) once per path.  on_path(self, outcome) is called at the end of every path."""
        global CUR, ABORTED
        self.trace = []
        prev = CUR
        CUR = self
        try:
            while True:
                self.pos = 0
                self.solver.reset()
                self._reset_path()
                ABORTED = False
                self.n_paths += 1
                outcome = 'ok'
                try:
                    fn(self)
                except PathAbort:
                    outcome = 'abort'
                except Budget as e:
                    outcome = 'budget'
                    self.notes.add('budget: %s' % (e,))
                if ABORTED:
                    outcome = 'abort'
                if self.pos < len(self.trace) and outcome == 'ok':
                    raise HarnessError('nondeterministic re-execution: %d recorded decisions not consumed' % (len(self.trace) - self.pos))
                if self.reached and outcome == 'ok':
                    self.paths_reaching += 1
                if on_path is not None:
                    on_path(self, outcome)
                while self.trace and not self.trace[-1][2]:
                    self.trace.pop()
                if not self.trace:
                    break
                d = self.trace[-1]
                d[1] = d[2].pop()
                if len([f for f in self.failures if self.count_failure is None or self.count_failure(f)]) >= self.max_failures:
                    self.notes.add('stopped after %d failing paths' % len(self.failures))
                    break
                if self.n_paths >= self.max_paths:
                    self.capped = True
                    self.notes.add('path cap hit')
                    break
        finally:
            CUR = prev
            ABORTED = False
        return self


# ------------------------------------------------------------------------------------------------
#  native-mode context (replay / per-path validation): same API, concrete values
# ------------------------------------------------------------------------------------------------
def _parse_val(s):
    if isinstance(s, str) and '/' in s:
        a, b = s.split('/')
        return Fraction(int(a), int(b))
    return s


class NativeCtx:
    symbolic = False
    abstract_decode = False

    def __init__(self, values, choices):
        self.values = values
        self.choice_list = list(choices)
        self.cpos = 0
        self._names = {}
        self.failures = []
        self.events = []
        self.obs = []
        self.labels = []
        self.cov = set()
        self.notes = set()
        self.reached = False
        self.diverged = False

    def _name(self, name):
        k = self._names.get(name, 0)
        self._names[name] = k + 1
        return '%s#%d' % (name, k)

    def int(self, name, lo=None, hi=None):
        full = self._name(name)
        v = self.values.get(full)
        if v is None:
            v = lo if lo is not None else (hi if hi is not None else 0)
        return int(v)

    def real(self, name, lo=None, hi=None):
        full = self._name(name)
        v = self.values.get(full)
        if v is None:
            v = lo if lo is not None else (hi if hi is not None else 0)
        v = _parse_val(v)
        return Fraction(v)

    def bytes(self, name, n):
        full = self._name(name)
        return bytes(int(self.values.get('%s[%d]' % (full, i), 0)) for i in range(n))

    def choose(self, n, label=''):
        if self.cpos < len(self.choice_list):
            v = self.choice_list[self.cpos]
        else:
            v = 0
            self.diverged = True
        self.cpos += 1
        if v >= max(n, 1):
            self.diverged = True
            v = 0
        return v

    def assume(self, cond):
        if not cond:
            raise PathAbort()

    def check(self, prop, label, detail=None):
        self.reached = True
        self.labels.append(label)
        ok = bool(prop)
        if not ok:
            self.failures.append(Failure(label, self.values, list(self.choice_list), list(self.events), detail))
        return ok

    def fail(self, label, detail=None):
        return self.check(False, label, detail)

    def observe(self, label, value):
        self.obs.append((label, value))

    def event(self, name):
        self.events.append(name)

    def covered(self, qualname):
        self.cov.add(qualname)

    def implied(self, cond):
        return bool(cond)


def to_concrete(v, model):
    """Evaluate a (possibly symbolic) observation under a z3 model -> plain python data."""
    if isinstance(v, SymInt):
        r = model.eval(v.t, model_completion=True)
        return r.as_long()
    if isinstance(v, SymReal):
        r = model.eval(v.t, model_completion=True)
        return Fraction(r.numerator_as_long(), r.denominator_as_long())
    if isinstance(v, SymBool):
        return z3.is_true(model.eval(v.t, model_completion=True))
    if isinstance(v, SymBytes):
        b = bytearray(v.base)
        for k, t in v.ov.items():
            b[k] = model.eval(t, model_completion=True).as_long()
        return bytes(b)
    if isinstance(v, SymStr):
        return ''.join(chr(to_concrete(c, model)) for c in v.cps)
    if isinstance(v, AbsStr):
        out = ''
        for s in v.segs:
            if s[0] == 'S':
                out += s[1]
            else:
                enc_, _, err_ = s[1].partition('/')
                out += bytes(to_concrete(x, model) for x in s[2]).decode({'utf8': 'utf-8', 'utf8sig': 'utf-8-sig'}.get(enc_, 'utf-8'), err_ or s[1])
        return out
    if isinstance(v, (list, tuple)):
        return [to_concrete(x, model) for x in v]
    if isinstance(v, dict):
        return {str(k): to_concrete(x, model) for k, x in v.items()}
    if isinstance(v, (bytearray, memoryview)):
        return bytes(v)
    if isinstance(v, float):
        return Fraction(v)
    return v


def plain(v):
    """native observation -> comparable plain python data"""
    if isinstance(v, SymBytes):
        return bytes(v.base)
    if isinstance(v, (bytearray, memoryview)):
        return bytes(v)
    if isinstance(v, (list, tuple)):
        return [plain(x) for x in v]
    if isinstance(v, dict):
        return {str(k): plain(x) for k, x in v.items()}
    if isinstance(v, float):
        return Fraction(v)
    return v
