"""Runner: shapes -> symbolic exploration -> native replay of counterexamples -> evidence / exit code.

usage:  python -m sx.run <Cnn> quick|thorough        python -m sx.run replay <file>
exit:   0 property held on everything explored (KNOWN-FINDING lines allowed)
        1 VIOLATION (replayed natively on the real code)
        2 inconclusive (solver unknown)          3 harness error (machinery wrong; never a verdict)
"""
import hashlib
import importlib
import json
import multiprocessing as mp
import os
import random
import re
import sys
import time
import traceback
import zlib

from . import core, loader

ROOT = os.path.dirname(os.path.dirname(os.path.abspath(__file__)))
NPROC = int(os.environ.get('SX_NPROC', '16'))
OUT = os.environ.get('SX_OUT', ROOT)     # evidence/ and replays/ go here (mutant self-tests redirect it)

_MODS = {}
VACUITY_LABEL = 'vacuity twin: the end of the harness is reachable (assert False must be violated)'


def get_mods(instrumented, yields=False, variant=None):
    if isinstance(yields, list):
        yields = tuple(yields)
    key = (instrumented, yields, variant)
    if key not in _MODS:
        if variant == 'usb':
            from .harness import usbstub
            _MODS[key] = usbstub.load_with_usb(instrumented)
        else:
            _MODS[key] = loader.load(instrumented=instrumented, yields=yields)
    return _MODS[key]


def harness_module(pid):
    return importlib.import_module('sx.harness.' + pid.lower())


def _jsonable(v):
    if isinstance(v, bytes):
        return {'hex': v.hex()} if len(v) <= 64 else {'hex': v[:64].hex(), 'len': len(v)}
    if isinstance(v, (list, tuple)):
        return [_jsonable(x) for x in v]
    if isinstance(v, dict):
        return {str(k): _jsonable(x) for k, x in v.items()}
    if isinstance(v, (int, str, bool)) or v is None:
        return v
    if isinstance(v, float):
        return v
    return str(v)


def run_native(hmod, shape, values, choices):
    """Run the harness on the *unmodified* source with concrete inputs."""
    mods = get_mods(False, yields=shape.get('yields') or False, variant=shape.get('variant'))
    nctx = core.NativeCtx(values, choices)
    prev, core.CUR = core.CUR, None
    prev_ab, core.ABORTED = core.ABORTED, False
    crash = None
    try:
        hmod.HARNESSES[shape['h']](nctx, mods, shape)
        if shape.get('vacuity') and nctx.reached:
            nctx.fail(VACUITY_LABEL)
    except core.PathAbort:
        nctx.notes.add('abort')
    except core.Budget as e:
        nctx.failures.append(core.Failure('operation budget exhausted (possible non-termination): %s' % e, values, choices, list(nctx.events)))
    except Exception as e:   # the harness itself crashed in native mode
        crash = '%s: %s' % (type(e).__name__, e)
        nctx.crash_tb = traceback.format_exc()
    finally:
        core.CUR = prev
        core.ABORTED = prev_ab
    nctx.crash = crash
    return nctx


def _match_known(known, pid, shape, labels, events):
    for k in known:
        if k.get('status') != 'open' or pid not in k.get('properties', [k.get('property')]):
            continue
        if k.get('harness') and not re.search(k['harness'], shape['h']):
            continue
        if k.get('label') and not any(re.search(k['label'], l) for l in labels):
            continue
        if k.get('events') and not all(any(re.search(e, ev) for ev in events) for e in k['events']):
            continue
        if k.get('forbid_events') and any(any(re.search(e, ev) for ev in events) for e in k['forbid_events']):
            continue
        return k
    return None


def work(args):
    """One shape: explore symbolically, validate a sample of paths natively, replay every counterexample."""
    pid, shape, tier, seed, validate_every = args
    t0 = time.time()
    hmod = harness_module(pid)
    res = {'known_candidates': {}, 'shape': shape, 'paths': 0, 'decisions': 0, 'queries': 0, 'vcs': 0, 'vcs_unsat': 0, 'solver_s': 0.0, 'unknown': 0, 'degraded': 0,
           'capped': False, 'reaching': 0, 'validated': 0, 'val_mismatch': [], 'failures': [], 'cov': [], 'notes': [], 'error': None, 'sample': None,
           'aborted': 0, 'budget': 0}
    try:
        mods = get_mods(True, yields=shape.get('yields') or False, variant=shape.get('variant'))
        fn = hmod.HARNESSES[shape['h']]
        ex = core.Explorer(max_paths=shape.get('max_paths', 20000 if tier == 'quick' else 200000), abstract_decode=bool(shape.get('abstract_decode')))
        if shape.get('xpart'):
            ex.part = tuple(shape['xpart'])
        known = [k for k in load_known() if k.get('status') == 'open' and pid in k.get('properties', [])]

        def is_candidate(f):
            return _match_known(known, pid, shape, [f.label], list(f.events)) is not None
        ex.count_failure = lambda f: not is_candidate(f)
        rng = random.Random((seed * 1000003) ^ zlib.crc32(json.dumps(shape, sort_keys=True).encode()))
        state = {'n': 0}

        def on_path(e, outcome):
            if outcome == 'abort':
                res['aborted'] += 1
                return
            if outcome == 'budget':
                res['budget'] += 1
                e.failures.append(core.Failure('operation budget exhausted (possible non-termination)', e.model_values(e.path_model()) if e.path_model() is not None else {}, list(e.choices), list(e.events)))
                return
            state['n'] += 1
            want = validate_every and (state['n'] == 1 or rng.random() < 1.0 / validate_every)
            if res['sample'] is None or want or state['n'] in (2, 5, 17, 60):
                m = e.path_model(diverse=rng)
                if m is None:
                    return
                vals = e.model_values(m)
                if res['sample'] is None or (len(vals) + len(e.choices) > len(res['sample']['model']) + len(res['sample']['choices']) and state['n'] < 200):
                    res['sample'] = {'shape': shape, 'model': {k: vals[k] for k in list(vals)[:24]}, 'choices': list(e.choices)[:40],
                                     'observed': _jsonable(core.to_concrete([o for _, o in e.obs], m))[:6], 'assertions': e.labels[:60]}
                if want and not e.path_failed:
                    n = run_native(hmod, shape, vals, e.choices)
                    sym_obs = core.to_concrete([o for _, o in e.obs], m)
                    nat_obs = core.plain([o for _, o in n.obs])
                    if n.failures and not n.crash:
                        # the real code violates an assertion on a model of a path that passed symbolically: a genuine
                        # (natively reproducible) violation, and a sign that the encoding lost something on this path
                        res['notes'].append('encoding gap: native run of a solver model failed where the symbolic path passed')
                        e.failures.append(core.Failure('native run of a solver-generated input violates: ' + n.failures[0].label, vals, list(e.choices), list(e.events)))
                    elif n.crash or n.diverged or sym_obs != nat_obs:
                        res['val_mismatch'].append({'shape': shape, 'values': vals, 'choices': list(e.choices), 'crash': n.crash,
                                                    'native_failures': [f.label for f in n.failures], 'diverged': n.diverged,
                                                    'sym_obs': _jsonable(sym_obs), 'nat_obs': _jsonable(nat_obs)})
                    else:
                        res['validated'] += 1

        crash = None
        try:
            def body(e):
                fn(e, mods, shape)
                if shape.get('vacuity') and e.reached and not any(f.label == VACUITY_LABEL for f in e.failures):
                    e.fail(VACUITY_LABEL)
            ex.explore(body, on_path=on_path)
        except core.HarnessError:
            raise
        except core.Unsupported as e:
            crash = 'Unsupported: %s' % (e,)
            tb = traceback.format_exc()
        except Exception as e:
            crash = '%s: %s' % (type(e).__name__, e)
            tb = traceback.format_exc()
        res.update(paths=ex.n_paths, decisions=ex.n_decisions, queries=ex.n_queries, vcs=ex.n_vcs, vcs_unsat=ex.n_vcs_unsat, solver_s=ex.solver_s,
                   unknown=ex.unknown, degraded=ex.degraded, capped=ex.capped, reaching=ex.paths_reaching, cov=sorted(ex.cov), notes=sorted(ex.notes))
        fails = []
        if shape.get('abstract_decode') and (ex.failures or crash):
            # stage 2 (DESIGN C01): a sat answer under 'decode is an uninterpreted function' is refined with the exact UTF-8 model
            res['notes'].append('abstract-decode failure refined with the exact UTF-8 model')
            total = sum(shape.get('lens', []))
            ex.failures = [f for f in ex.failures if 'decod' not in f.label]
            if total <= 4:
                ex2 = core.Explorer(max_paths=20000, abstract_decode=False, max_failures=1)
                try:
                    ex2.explore(lambda e: fn(e, mods, shape))
                    ex.failures += ex2.failures
                    res['paths'] += ex2.n_paths
                    res['queries'] += ex2.n_queries
                    res['unknown'] += ex2.unknown
                except (Exception, core.Unsupported) as e:
                    crash = '%s: %s' % (type(e).__name__, e)
                    tb = traceback.format_exc()
                    total = 99
            if total > 4:
                # too many bytes for the exact model: try canned multi-byte witnesses natively
                for pat in (bytes.fromhex('efbbbf41'), bytes.fromhex('e282ac'), bytes.fromhex('82ace2'), bytes.fromhex('ace282'), bytes.fromhex('c3a9'), bytes.fromhex('a9c3'), bytes.fromhex('f09f9880')):
                    vals = {}
                    k = 0
                    for i, n in enumerate(shape.get('lens', [])):
                        for j in range(n):
                            vals['p%d#0[%d]' % (i, j)] = pat[k % len(pat)]
                            k += 1
                    vals['rid#0'] = 77
                    f = core.Failure('decode=True result differs from the decoding of the whole concatenation (canned witness)', vals, [0] * 64, [])
                    f.canned = True
                    ex.failures.append(f)
        if crash is not None and crash.startswith('Unsupported'):
            res['unknown'] += 1
            res['notes'].append('inconclusive: ' + crash)
        elif crash is not None:
            # the symbolic run crashed: try the same prefix natively with a model of the path so far
            vals = {}
            try:
                m = ex.path_model()
                vals = ex.model_values(m) if m is not None else {}
            except Exception:
                pass
            fails.append(core.Failure('unexpected exception in symbolic run: ' + crash, vals, list(ex.choices), list(ex.events), detail=tb))
        seen = set()
        canned_hit = None
        cand_count = {}
        for f in sorted(ex.failures, key=lambda f: is_candidate(f)):
            if is_candidate(f):
                # failures matching a known-finding signature: keep two witnesses per label, count the rest
                cand_count[f.label] = cand_count.get(f.label, 0) + 1
                if cand_count[f.label] > 2:
                    continue
            else:
                key = (f.label, tuple(f.events), id(f) if getattr(f, 'canned', False) else 0)
                if key in seen:
                    continue
                seen.add(key)
            fails.append(f)
        res['known_candidates'] = cand_count
        for f in fails[:16]:
            n = run_native(hmod, shape, f.values, f.choices)
            rec = {'label': f.label, 'values': f.values, 'choices': f.choices, 'events': f.events, 'detail': f.detail,
                   'native_labels': [x.label for x in n.failures], 'native_events': list(n.events), 'native_crash': n.crash,
                   'native_detail': [x.detail for x in n.failures][:3],
                   'reproduced': bool(n.failures) or bool(n.crash and f.label.startswith('unexpected exception'))}
            if getattr(f, 'canned', False):
                if rec['reproduced']:
                    canned_hit = True
                elif canned_hit is None:
                    canned_hit = False
                if not rec['reproduced']:
                    continue
            if n.crash and not f.label.startswith('unexpected exception'):
                rec['native_tb'] = getattr(n, 'crash_tb', None)
            res['failures'].append(rec)
        if canned_hit is False:
            res['unknown'] += 1
            res['notes'].append('abstract-decode failure could be neither refined nor reproduced with canned witnesses: inconclusive')
    except BaseException as e:
        res['error'] = '%s: %s\n%s' % (type(e).__name__, e, traceback.format_exc())
    res['wall_s'] = time.time() - t0
    return res


def load_known():
    p = os.path.join(ROOT, 'known_findings.json')
    if not os.path.exists(p):
        return []
    with open(p) as f:
        return json.load(f).get('findings', [])


def main(argv):
    if len(argv) >= 2 and argv[0] == 'replay':
        return replay(argv[1])
    if argv and argv[0] == 'selftest':
        from . import selftest
        return selftest.main(argv[1:])
    pid, tier = argv[0].upper(), (argv[1] if len(argv) > 1 else os.environ.get('VERIF_TIER', 'quick'))
    seed = int(os.environ.get('VERIF_SEED', '0') or 0)
    t0 = time.time()
    if tier == 'thorough' and not os.environ.get('SX_SKIP_SELFTEST'):
        # encoding validation a, b, d (DESIGN 2.7) before a thorough run
        from . import selftest
        if selftest.main(['fast']) != 0:
            print('HARNESS-ERROR property=%s the self-test of the machinery failed; no verdict' % pid)
            return 3
    hmod = harness_module(pid)
    shapes = hmod.shapes(tier, seed)
    only = os.environ.get('SX_ONLY')
    if only:
        shapes = [s for s in shapes if re.search(only, s['h'])]
    validate_every = hmod.VALIDATE_EVERY.get(tier, 8) if hasattr(hmod, 'VALIDATE_EVERY') else (8 if tier == 'quick' else 1)
    deadline = getattr(hmod, 'DEADLINE', {}).get(tier, 900 if tier == 'quick' else 3 * 3600)
    jobs = [(pid, s, tier, seed, validate_every) for s in shapes]
    results = []
    skipped = 0
    if NPROC <= 1 or len(jobs) <= 1:
        for j in jobs:
            if time.time() - t0 > deadline:
                skipped += 1
                continue
            results.append(work(j))
    else:
        ctxm = mp.get_context('fork')
        with ctxm.Pool(min(NPROC, len(jobs))) as pool:
            it = pool.imap_unordered(work, jobs, chunksize=1)
            for _ in range(len(jobs)):
                try:
                    r = it.next(timeout=max(1.0, deadline - (time.time() - t0)))
                except mp.TimeoutError:
                    skipped = len(jobs) - len(results)
                    pool.terminate()
                    break
                results.append(r)
    return report(pid, tier, seed, hmod, shapes, results, skipped, time.time() - t0)


def _selftest_summary():
    try:
        from . import selftest
        r = selftest.LAST_REPORT
        if not r:
            return None
        out = {k: v.get('ok') for k, v in r.items() if isinstance(v, dict)}
        ss = r.get('second_solver', {}).get('info', {})
        out['cross_checked_vcs'] = ss.get('vcs')
        out['cross_check_verdicts'] = {k: ss.get(k) for k in ('z3_4.8.12', 'cvc5')}
        return out
    except Exception:
        return None


def report(pid, tier, seed, hmod, shapes, results, skipped, wall):
    known = load_known()
    tot = lambda k: sum(r[k] for r in results)
    errors = [r for r in results if r['error']]
    mismatches = [m for r in results for m in r['val_mismatch']]
    violations, known_hits, unreproduced = [], {}, []
    for r in results:
        for f in r['failures']:
            if not f['reproduced']:
                unreproduced.append((r['shape'], f))
                continue
            labels = [f['label']] + f['native_labels']
            events = list(f['events']) + list(f['native_events'])
            k = _match_known(known, pid, r['shape'], labels, events)
            if k is not None:
                known_hits.setdefault(k['id'], [k, 0])
                known_hits[k['id']][1] += max(1, r.get('known_candidates', {}).get(f['label'], 1)) if f is [x for x in r['failures'] if x['label'] == f['label']][0] else 0
            else:
                violations.append((r['shape'], f))
    os.makedirs(os.path.join(OUT, 'evidence'), exist_ok=True)
    lines = []
    for kid, (k, n) in sorted(known_hits.items()):
        lines.append('KNOWN-FINDING: property=%s %s: %s (%d failing paths match this signature)' % (pid, kid, k['what'], n))
    replay_paths = []
    seen_sig = set()
    for shape, f in violations:
        sig = (shape['h'], f['label'])
        if sig in seen_sig and len(replay_paths) >= 3:
            continue
        seen_sig.add(sig)
        rec = {'property': pid, 'shape': shape, 'label': f['label'], 'values': f['values'], 'choices': f['choices'], 'events': f['events'],
               'native_labels': f['native_labels'], 'native_detail': f['native_detail'], 'native_crash': f['native_crash'], 'detail': f['detail']}
        blob = json.dumps(rec, sort_keys=True, default=str)
        d = os.path.join(OUT, 'replays', pid)
        os.makedirs(d, exist_ok=True)
        path = os.path.join(d, hashlib.sha1(blob.encode()).hexdigest()[:12] + '.json')
        with open(path, 'w') as fh:
            fh.write(blob)
        replay_paths.append(path)
        if len(replay_paths) <= 10:
            lines.append('VIOLATION property=%s replay=%s' % (pid, path))
            lines.append('  harness=%s failing assertion: %s | native run: %s' % (shape['h'], f['label'], '; '.join(f['native_labels'][:2]) or f['native_crash']))
    n_unknown = tot('unknown')
    capped = [r['shape'] for r in results if r['capped']]
    cov = sorted({c for r in results for c in r['cov']})
    cands = [r['sample'] for r in results if r['sample']]
    # prefer the richest samples (most symbolic inputs / choices), one per harness first
    cands.sort(key=lambda x: -(len(x.get('model', {})) + len(x.get('choices', []))))
    samples, seen_h = [], set()
    for c in cands:
        if c['shape']['h'] not in seen_h:
            seen_h.add(c['shape']['h'])
            samples.append(c)
    samples = (samples + [c for c in cands if c not in samples])[:6]
    for c in samples:
        seen_l = []
        for l in c.get('assertions', []):
            if l not in seen_l:
                seen_l.append(l)
        c['assertions'] = seen_l[:10]
    if not samples:
        samples = [{'shape': s} for s in shapes[:3]]
    exhaustive = not capped and not skipped and not errors and n_unknown == 0
    n_degraded = tot('degraded')
    status = 0
    if violations:
        status = 1
    elif errors or mismatches or unreproduced:
        status = 3
    elif n_unknown or n_degraded:
        status = 2
    evidence = {
        'property_id': pid, 'tier': tier, 'seed': seed, 'level': 'model_checking',
        'coverage': {
            'states': max(tot('paths'), 0), 'transitions': max(tot('decisions'), 0),
            'traces_validated_against_impl': tot('validated'),
            'samples': _jsonable(samples),
            'exhaustive': exhaustive,
            'explanation': 'bounded symbolic execution of the real source (proxy values + z3): states = explored paths, transitions = decisions '
                           '(symbolic branches, finite choices, concretisations); every path ends in VCs  pc => assertion  decided by z3 for all values of the symbolic variables',
            'shapes': len(shapes), 'shapes_run': len(results), 'shapes_skipped_deadline': skipped,
            'paths_reaching_assertion': tot('reaching'), 'paths_aborted_infeasible': tot('aborted'),
            'queries': tot('queries'), 'vcs_discharged': tot('vcs_unsat'), 'vcs_total': tot('vcs'), 'solver_s': round(tot('solver_s'), 2),
            'unknown': n_unknown, 'degraded_paths': tot('degraded'), 'caps_hit': len(capped),
            'functions_encoded': cov, 'bounds': getattr(hmod, 'BOUNDS', {}).get(tier, ''),
            'harnesses': sorted({s['h'] for s in shapes}),
            'known_findings_hit': {k: n for k, (_, n) in known_hits.items()},
            'notes': sorted({n for r in results for n in r['notes']}),
            'cpu_s': round(sum(r.get('wall_s', 0) for r in results), 1),
            'solver': 'z3 ' + __import__('z3').get_version_string(),
            'selftest_before_run': _selftest_summary(),
        },
        'assumptions': list(getattr(hmod, 'ASSUMPTIONS', [])),
        'wall_s': round(wall, 2), 'violations': len(violations),
    }
    with open(os.path.join(OUT, 'evidence', pid + '.json'), 'w') as fh:
        json.dump(evidence, fh, indent=1, default=str)
    for l in lines:
        print(l)
    for r in errors[:5]:
        print('HARNESS-ERROR property=%s shape=%s\n%s' % (pid, json.dumps(r['shape']), r['error']))
    for m in mismatches[:5]:
        print('HARNESS-ERROR property=%s symbolic and native runs disagree: %s' % (pid, json.dumps(_jsonable(m), default=str)[:1500]))
    for shape, f in unreproduced[:5]:
        print('HARNESS-ERROR property=%s counterexample did not reproduce natively: shape=%s label=%s values=%s choices=%s native_crash=%s\n%s' % (
            pid, json.dumps(shape), f['label'], json.dumps(f['values'])[:600], f['choices'][:60], f['native_crash'], f.get('native_tb') or ''))
    if n_unknown or n_degraded:
        print('INCONCLUSIVE property=%s solver unknown / unrefinable %d times, degraded paths %d (an operation without a symbolic model was applied to symbolic data)' % (pid, n_unknown, n_degraded))
    print('%s %s: shapes=%d paths=%d decisions=%d queries=%d vcs=%d/%d validated=%d unknown=%d degraded=%d capped=%d skipped=%d known=%d violations=%d wall=%.1fs cpu=%.1fs solver=%.1fs -> exit %d' % (
        pid, tier, len(results), tot('paths'), tot('decisions'), tot('queries'), tot('vcs_unsat'), tot('vcs'), tot('validated'), n_unknown, tot('degraded'),
        len(capped), skipped, sum(n for _, n in known_hits.values()), len(violations), wall, sum(r.get('wall_s', 0) for r in results), tot('solver_s'), status))
    return status


def replay(path):
    with open(path) as f:
        rec = json.load(f)
    hmod = harness_module(rec['property'])
    n = run_native(hmod, rec['shape'], rec['values'], rec['choices'])
    print('replay of %s shape=%s' % (rec['property'], json.dumps(rec['shape'])))
    print('inputs:', json.dumps(rec['values'])[:2000])
    print('choices:', rec['choices'])
    for o in n.obs:
        print('observed %s = %r' % (o[0], core.plain(o[1])))
    for f in n.failures:
        print('FAILED: %s %s' % (f.label, f.detail or ''))
    if n.crash:
        print('CRASH:', n.crash)
    if n.failures or n.crash:
        print('VIOLATION property=%s replay=%s' % (rec['property'], path))
        return 1
    print('no failure reproduced')
    return 0


if __name__ == '__main__':
    sys.exit(main(sys.argv[1:]))
