"""Environment stubs (DESIGN.md 2.4): clock, virtual file system, in-memory transport, async drivers.

Every stub works in both modes: with proxies under an Explorer, with plain values in native mode.
"""
import io
import os as _os
import posixpath
import types

from . import core
from .core import SymBytes, SymInt, norm, as_sym


# ------------------------------------------------------------------------------------------------
#  clock
# ------------------------------------------------------------------------------------------------
class Clock:
    """time module stand-in: time() returns `now`; only transport stubs advance it."""

    def __init__(self, now=0):
        self.now = now
        self.sleeps = 0

    def time(self):
        return self.now

    def monotonic(self):
        return self.now

    def advance(self, d):
        self.now = self.now + d

    def sleep(self, d):
        self.sleeps += 1
        self.advance(d)


# ------------------------------------------------------------------------------------------------
#  virtual file system behind open / os.* / aiofiles.open
# ------------------------------------------------------------------------------------------------
class VFile:
    def __init__(self, vfs, path, mode, fd):
        self.vfs = vfs
        self.path = path
        self.mode = mode
        self.fd = fd
        self.pos = 0
        self.closed = False

    def __enter__(self):
        return self

    def __exit__(self, *a):
        self.close()
        return False

    def close(self):
        self.closed = True
        self.vfs.open_count -= 1

    def fileno(self):
        return self.fd

    def read(self, n=-1):
        if self.closed:
            raise ValueError('I/O operation on closed file.')
        if 'r' not in self.mode:
            raise io.UnsupportedOperation('read')
        content = self.vfs.files[self.path]
        if n is None or n < 0:
            n = len(content) - self.pos
        r = content[self.pos:self.pos + n]
        self.pos += len(r)
        self.vfs.reads.append((self.path, len(r)))
        return norm(r)

    def write(self, data):
        if self.closed:
            raise ValueError('I/O operation on closed file.')
        if 'w' not in self.mode and 'a' not in self.mode:
            raise io.UnsupportedOperation('write')
        core_marker_check(data)
        self.vfs.files[self.path] = self.vfs.files[self.path] + as_sym(data)
        self.vfs.writes.append((self.path, len(data)))
        return len(data)


class AVFile:
    """aiofiles-like wrapper: read/write are coroutines"""

    def __init__(self, f):
        self._f = f

    def fileno(self):
        return self._f.fileno()

    async def read(self, n=-1):
        return self._f.read(n)

    async def write(self, data):
        return self._f.write(data)

    async def close(self):
        self._f.close()


class _AOpen:
    def __init__(self, vfs, path, mode):
        self.vfs, self.path, self.mode = vfs, path, mode
        self.f = None

    async def __aenter__(self):
        self.f = self.vfs.open(self.path, self.mode)
        return AVFile(self.f)

    async def __aexit__(self, *a):
        self.f.close()
        return False

    def __await__(self):
        async def _o():
            self.f = self.vfs.open(self.path, self.mode)
            return AVFile(self.f)
        return _o().__await__()


class _StatResult:
    def __init__(self, size, mode=0o100644):
        self.st_size = size
        self.st_mode = mode


def core_marker_check(data):
    b = data.base if isinstance(data, SymBytes) else data
    if isinstance(b, (bytes, bytearray)) and core.MARKB in bytes(b):
        raise core.Unsupported('a rendered symbolic value reached an environment sink')


class VFS:
    def __init__(self, cwd='/cwd'):
        self.files = {}      # absolute path -> SymBytes
        self.dirs = {}       # absolute path -> list of names (in listdir order)
        self.cwd = cwd
        self.dirs[cwd] = []
        self.fds = {}
        self.next_fd = 100
        self.created = []
        self.removed = []
        self.reads = []
        self.writes = []
        self.open_count = 0
        self.opened = []

    # population helpers (harness side)
    def add_file(self, path, content):
        path = self.resolve(path)
        self.files[path] = as_sym(content)
        d = posixpath.dirname(path)
        self.dirs.setdefault(d, [])
        if posixpath.basename(path) not in self.dirs[d]:
            self.dirs[d].append(posixpath.basename(path))

    def add_dir(self, path):
        path = self.resolve(path)
        self.dirs.setdefault(path, [])
        d = posixpath.dirname(path)
        if d != path:
            self.dirs.setdefault(d, [])
            if posixpath.basename(path) not in self.dirs[d]:
                self.dirs[d].append(posixpath.basename(path))

    def resolve(self, p):
        if isinstance(p, bytes):
            p = p.decode()
        if not p.startswith('/'):
            p = self.cwd + '/' + p
        return posixpath.normpath(p)

    # os / builtins API
    def open(self, path, mode='r', *a, **k):
        if isinstance(path, int):
            raise core.Unsupported('open(fd)')
        if not isinstance(path, (str, bytes)):
            raise TypeError('expected str, bytes or os.PathLike object, not %s' % type(path).__name__)
        p = self.resolve(path)
        self.opened.append((p, mode))
        if 'r' in mode:
            if p in self.dirs:
                raise IsADirectoryError(21, 'Is a directory', path)
            if p not in self.files:
                raise FileNotFoundError(2, 'No such file or directory', path)
        else:
            if p in self.dirs:
                raise IsADirectoryError(21, 'Is a directory', path)
            if posixpath.dirname(p) not in self.dirs:
                raise FileNotFoundError(2, 'No such file or directory', path)
            self.files[p] = SymBytes()
            self.created.append(p)
        fd = self.next_fd
        self.next_fd += 1
        f = VFile(self, p, mode, fd)
        self.fds[fd] = f
        self.open_count += 1
        return f

    def aopen(self, path, mode='r', *a, **k):
        return _AOpen(self, path, mode)

    def isdir(self, p):
        if not isinstance(p, (str, bytes)):
            raise TypeError('stat: path should be string, bytes, os.PathLike or integer, not %s' % type(p).__name__)
        return self.resolve(p) in self.dirs

    def isfile(self, p):
        return self.resolve(p) in self.files

    def exists(self, p):
        p = self.resolve(p)
        return p in self.files or p in self.dirs

    def listdir(self, p='.'):
        p = self.resolve(p)
        if p not in self.dirs:
            raise FileNotFoundError(2, 'No such file or directory', p)
        return list(self.dirs[p])

    def remove(self, p):
        if not isinstance(p, (str, bytes)):
            raise TypeError('remove: path should be string, bytes or os.PathLike, not %s' % type(p).__name__)
        q = self.resolve(p)
        if q not in self.files:
            raise FileNotFoundError(2, 'No such file or directory', p)
        del self.files[q]
        d = posixpath.dirname(q)
        if posixpath.basename(q) in self.dirs.get(d, []):
            self.dirs[d].remove(posixpath.basename(q))
        self.removed.append(q)

    def fstat(self, fd):
        f = self.fds.get(fd)
        if f is None:
            raise OSError(9, 'Bad file descriptor')
        return _StatResult(len(self.files[f.path]))

    def stat(self, p):
        p = self.resolve(p)
        if p in self.files:
            return _StatResult(len(self.files[p]))
        if p in self.dirs:
            return _StatResult(4096, 0o040755)
        raise FileNotFoundError(2, 'No such file or directory', p)

    def os_module(self):
        """An object usable as the `os` module global of the code under test."""
        vfs = self
        m = types.SimpleNamespace()
        pm = types.SimpleNamespace()
        for n in ('join', 'basename', 'dirname', 'normpath', 'split', 'splitext', 'sep', 'isabs', 'relpath', 'commonprefix'):
            setattr(pm, n, getattr(posixpath, n))
        pm.isdir = vfs.isdir
        pm.isfile = vfs.isfile
        pm.exists = vfs.exists
        pm.getsize = lambda p: vfs.stat(p).st_size
        pm.abspath = vfs.resolve
        pm.realpath = vfs.resolve
        pm.expanduser = lambda p: p
        m.path = pm
        m.listdir = vfs.listdir
        m.remove = vfs.remove
        m.unlink = vfs.remove
        m.fstat = vfs.fstat
        m.stat = vfs.stat
        m.getcwd = lambda: vfs.cwd
        m.sep = '/'
        m.linesep = '\n'
        m.name = 'posix'
        m.environ = {}
        m.error = OSError

        def scandir(p='.'):
            base = vfs.resolve(p)
            out = []
            for n in vfs.listdir(p):
                full = posixpath.join(base, n)
                e = types.SimpleNamespace(name=n, path=posixpath.join(p, n))
                e.is_dir = (lambda full=full: (lambda **k: full in vfs.dirs))()
                e.is_file = (lambda full=full: (lambda **k: full in vfs.files))()
                out.append(e)
            return out

        def walk(top):
            base = vfs.resolve(top)
            names = vfs.listdir(top)
            ds = [n for n in names if posixpath.join(base, n) in vfs.dirs]
            fs = [n for n in names if posixpath.join(base, n) in vfs.files]
            yield top, ds, fs
            for d in ds:
                yield from walk(posixpath.join(top, d))
        m.scandir = scandir
        m.walk = walk
        m.fspath = lambda p: p
        return m

    def aiofiles_module(self):
        m = types.SimpleNamespace()
        m.open = self.aopen
        m.os = types.SimpleNamespace()
        return m


class _BufView:
    """stands for memoryview(buffer) of a BytesIO with symbolic content: only its size is available"""

    def __init__(self, n):
        self.nbytes = n

    def __len__(self):
        return self.nbytes

    def release(self):
        pass


class SymBytesIO(io.BytesIO):
    """A genuine BytesIO subclass whose content may hold symbolic bytes (isinstance / fileno behave as CPython's)."""

    def __init__(self, init=None):
        super().__init__()
        self._content = as_sym(init) if init is not None else SymBytes()
        self._rpos = 0
        self.write_sizes = []

    def write(self, data):
        if not isinstance(data, (bytes, bytearray, SymBytes, memoryview)):
            raise TypeError("a bytes-like object is required, not '%s'" % type(data).__name__)
        core_marker_check(data)
        self._content = self._content + as_sym(data)
        self.write_sizes.append(len(data))
        return len(data)

    def read(self, n=-1):
        if n is None or n < 0:
            n = len(self._content) - self._rpos
        r = self._content[self._rpos:self._rpos + n]
        self._rpos += len(r)
        return norm(r)

    def getvalue(self):
        return norm(self._content)

    def seek(self, pos, whence=0):
        size = len(self._content)
        if whence == 0:
            self._rpos = pos
        elif whence == 1:
            self._rpos += pos
        else:
            self._rpos = size + pos
        self._rpos = max(0, self._rpos)
        return self._rpos

    def tell(self):
        return self._rpos

    def getbuffer(self):
        if self._content.ov:
            return _BufView(len(self._content))
        return memoryview(bytes(self._content.base))

    def __len__(self):
        return len(self._content)


# ------------------------------------------------------------------------------------------------
#  drivers: run the sync API directly, the async API by stepping coroutines by hand
# ------------------------------------------------------------------------------------------------
class CoroutineSuspended(core.HarnessError):
    pass


def run_coro(coro):
    try:
        coro.send(None)
    except StopIteration as e:
        return e.value
    coro.close()
    raise CoroutineSuspended('coroutine suspended: an environment stub awaited something real')


class SyncDriver:
    name = 'sync'
    is_async = False

    def call(self, f, *a, **k):
        return f(*a, **k)

    def iterate(self, gen):
        return gen

    def close_iter(self, gen):
        gen.close()


class AsyncDriver:
    name = 'async'
    is_async = True

    def call(self, f, *a, **k):
        r = f(*a, **k)
        if hasattr(r, 'send'):
            return run_coro(r)
        return r

    def iterate(self, agen):
        while True:
            try:
                item = run_coro(agen.__anext__())
            except StopAsyncIteration:
                return
            yield item

    def close_iter(self, agen):
        run_coro(agen.aclose())


class _Immediate:
    """awaitable that runs f immediately (stands for loop.run_in_executor)"""

    def __init__(self, f, a):
        self.f, self.a = f, a

    def __await__(self):
        return self.f(*self.a)
        yield  # pragma: no cover


class FakeLoop:
    def run_in_executor(self, executor, f, *a):
        return _Immediate(f, a)


def get_running_loop_stub():
    return FakeLoop()


# ------------------------------------------------------------------------------------------------
#  in-memory transport
# ------------------------------------------------------------------------------------------------
class Fault(Exception):
    pass


class Wire:
    """Shared logic of the in-memory transport (sync and async flavours delegate here).

    device: object with  on_connect(), on_close(), host_wrote(data), pending() -> number of bytes ready for the host
            (after letting the device fill its wire buffer), take(k) -> bytes, frame_remaining() -> bytes left in the
            packet at the head of the wire (or None).
    """

    def __init__(self, ctx, device, clock, timeout_exc, frag=None, budget=4000, short_write=None, fault=None, yield_hook=None):
        self.ctx = ctx
        self.device = device
        self.clock = clock
        self.timeout_exc = timeout_exc
        self.frag = frag                # callable(n_requested, avail, call_index) -> k   (read fragmentation policy)
        self.short_write = short_write  # callable(len, call_index) -> accepted count
        self.fault = fault              # callable(kind 'r'/'w'/'c'/'x', call_index) -> None | exception to raise | 'eof'
        self.budget = budget
        self.calls = 0
        self.reads = 0
        self.writes = 0
        self.connected = False
        self.connects = 0
        self.closes = 0
        self.written = []      # every chunk accepted by the transport, in order
        self.read_sizes = []
        self.over_reads = []
        self.read_timeouts = []
        self.yield_hook = yield_hook
        self.block_forever = False

    def _tick(self, kind):
        self.calls += 1
        if self.calls > self.budget:
            raise core.Budget('more than %d transport calls' % self.budget)
        if self.yield_hook is not None:
            self.yield_hook()
        if self.fault is not None:
            f = self.fault(kind, self.calls - 1)
            if f is not None:
                return f
        return None

    def connect(self, t):
        f = self._tick('c')
        if isinstance(f, BaseException):
            raise f
        self.connected = True
        self.connects += 1
        self.device.on_connect()

    def close(self):
        f = self._tick('x')
        self.closes += 1
        self.connected = False
        self.device.on_close()
        if isinstance(f, BaseException):
            raise f

    def read(self, n, t):
        f = self._tick('r')
        self.reads += 1
        self.read_sizes.append(n)
        self.read_timeouts.append(t)
        if isinstance(f, BaseException):
            raise f
        if f == 'eof':
            return b''
        if not self.connected:
            raise OSError(9, 'transport not connected')
        avail = self.device.pending()
        if not avail:
            if t is None:
                self.block_forever = True
                raise core.Budget('bulk_read with timeout None and nothing pending: blocks forever')
            self.clock.advance(t)
            raise self.timeout_exc('in-memory transport: read timed out')
        rem = self.device.frame_remaining()
        if rem is not None and not isinstance(n, SymInt) and n > rem:
            self.over_reads.append((n, rem))
        k = min(n, avail)
        if self.frag is not None:
            k = self.frag(n, avail, self.reads - 1)
        data = self.device.take(k)
        return norm(data)

    def write(self, data, t):
        f = self._tick('w')
        self.writes += 1
        if isinstance(f, BaseException):
            raise f
        if not self.connected:
            raise OSError(9, 'transport not connected')
        core_marker_check(data)
        n = len(data)
        k = n
        if self.short_write is not None:
            self.current_write = data
            k = self.short_write(n, self.writes - 1)
        acc = as_sym(data)[:k]
        self.written.append(acc)
        self.device.host_wrote(acc)
        return k


def make_transports(mods):
    """MemTransport classes deriving from the loaded BaseTransport / BaseTransportAsync."""
    Base = mods.base_transport.BaseTransport
    ABase = mods.base_transport_async.BaseTransportAsync

    class MemTransport(Base):
        def __init__(self, wire):
            self.wire = wire

        def close(self):
            self.wire.close()

        def connect(self, transport_timeout_s):
            self.wire.connect(transport_timeout_s)

        def bulk_read(self, numbytes, transport_timeout_s):
            return self.wire.read(numbytes, transport_timeout_s)

        def bulk_write(self, data, transport_timeout_s):
            return self.wire.write(data, transport_timeout_s)

    class MemTransportAsync(ABase):
        def __init__(self, wire):
            self.wire = wire

        async def close(self):
            self.wire.close()

        async def connect(self, transport_timeout_s):
            self.wire.connect(transport_timeout_s)

        async def bulk_read(self, numbytes, transport_timeout_s):
            return self.wire.read(numbytes, transport_timeout_s)

        async def bulk_write(self, data, transport_timeout_s):
            return self.wire.write(data, transport_timeout_s)

    return MemTransport, MemTransportAsync
