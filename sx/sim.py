"""Device side: an independent implementation of adbd's wire behaviour (DESIGN.md 2.4, 2.5).

Written from AOSP protocol.txt / SYNC.TXT with plain positional arithmetic; it does not use adb_shell's
adb_message module.  Works on SymBytes (symbolic mode) and on plain bytes (native mode).
"""
import struct

from . import core
from .core import SymBytes, SymInt, as_sym, word_le, sum_shim, sand, sor


def wid(cmd):
    return int.from_bytes(cmd, 'little')


A_SYNC, A_CNXN, A_AUTH, A_OPEN, A_OKAY, A_CLSE, A_WRTE = (wid(c) for c in (b'SYNC', b'CNXN', b'AUTH', b'OPEN', b'OKAY', b'CLSE', b'WRTE'))
KNOWN = {w: c for w, c in ((A_SYNC, b'SYNC'), (A_CNXN, b'CNXN'), (A_AUTH, b'AUTH'), (A_OPEN, b'OPEN'), (A_OKAY, b'OKAY'), (A_CLSE, b'CLSE'), (A_WRTE, b'WRTE'))}
VERSION = 0x01000000
M32 = 0xFFFFFFFF


def enc32(v):
    if isinstance(v, SymInt):
        return core.CUR.le32(v)
    return SymBytes(struct.pack('<I', v))


def frame(cmd, a0, a1, payload=b'', checksum=None, cmdword=None, magic=None, length=None):
    """One ADB packet as bytes.  Fields may be symbolic (they must be known to lie in [0, 2^32))."""
    payload = as_sym(payload)
    w = cmdword if cmdword is not None else wid(cmd)
    if checksum is None:
        s = sum_shim(payload)
        checksum = s % (1 << 32) if isinstance(s, SymInt) else s & M32
    if magic is None:
        magic = M32 - w
    if length is None:
        length = len(payload)
    return enc32(w) + enc32(a0) + enc32(a1) + enc32(length) + enc32(checksum) + enc32(magic) + payload


def sync_rec(id4, *words, data=b''):
    out = SymBytes(id4)
    for w in words:
        out = out + enc32(w)
    return out + as_sym(data)


# ------------------------------------------------------------------------------------------------
#  independent decoder of what the host writes (oracle of C02, attached everywhere)
# ------------------------------------------------------------------------------------------------
class HostPacket:
    def __init__(self, cmd, a0, a1, payload, index):
        self.cmd, self.a0, self.a1, self.payload, self.index = cmd, a0, a1, payload, index

    def __repr__(self):
        return '<%s %r %r %d>' % (self.cmd.decode(), self.a0, self.a1, len(self.payload))


class HostDecoder:
    def __init__(self, ctx, on_packet=None):
        self.ctx = ctx
        self.buf = SymBytes()
        self.packets = []
        self.on_packet = on_packet
        self.broken = False
        self.raw = SymBytes()
        self.lenient = False          # True: framing errors are recorded in framing_errors and judged by the harness (a call that raises may leave a truncated message behind)
        self.framing_errors = []

    def _chk(self, cond, label, detail=None):
        if self.lenient:
            if not cond:
                self.framing_errors.append(label)
                self.broken = True       # nothing after a framing error is delivered to the simulated services
                return False
            return True
        return self.ctx.check(cond, label, detail=detail)

    def feed(self, data):
        data = as_sym(data)
        self.raw = self.raw + data
        if self.broken:
            return
        self.buf = self.buf + data
        while self._one():
            pass

    def _one(self):
        ctx = self.ctx
        buf = self.buf
        if len(buf) < 24:
            return False
        cmdw, a0, a1, ln, ck, mg = (word_le(buf, 4 * i) for i in range(6))
        if isinstance(cmdw, SymInt):
            if not self._chk(sor(*[cmdw == w for w in KNOWN]), 'wire: command word is one of the seven known commands'):
                self.broken = True
                return False
            cmdw = core.concretize(cmdw)
        elif not self._chk(cmdw in KNOWN, 'wire: command word is one of the seven known commands', detail=hex(cmdw)):
            self.broken = True
            return False
        if not self._chk(mg == M32 - cmdw, 'wire: magic == command XOR 0xFFFFFFFF') and self.lenient:
            return False
        if isinstance(ln, SymInt):
            ln = core.concretize(ln)
        if ln > (1 << 20) + 64:
            self._chk(False, 'wire: data_length larger than any payload the API can produce')
            self.broken = True
            return False
        if len(buf) < 24 + ln:
            return False
        payload = buf[24:24 + ln]
        s = sum_shim(payload)
        if not self._chk(ck == (s % (1 << 32) if isinstance(s, SymInt) else s & M32), 'wire: data_check == byte sum of payload mod 2^32') and self.lenient:
            return False
        self.buf = buf[24 + ln:]
        p = HostPacket(KNOWN[cmdw], a0, a1, payload, len(self.packets))
        self.packets.append(p)
        if self.on_packet is not None:
            self.on_packet(p)
        return True

    def finish(self):
        """At the end of a scenario nothing may be left over (header and payload are written back to back)."""
        if not self.broken:
            self._chk(len(self.buf) == 0, 'wire: no partial packet left on the wire', detail='%d stray bytes' % len(self.buf))


# ------------------------------------------------------------------------------------------------
#  passive scripted device: a fixed byte stream (built from symbolic pieces), host writes only decoded
# ------------------------------------------------------------------------------------------------
class ScriptDevice:
    def __init__(self, ctx, packets=()):
        self.ctx = ctx
        self.decoder = HostDecoder(ctx)
        self.wire = SymBytes()
        self.frames = []
        for p in packets:
            self.add(p)

    def add(self, pkt):
        pkt = as_sym(pkt)
        self.wire = self.wire + pkt
        self.frames.append(len(pkt))

    def on_connect(self):
        pass

    def on_close(self):
        pass

    def host_wrote(self, data):
        self.decoder.feed(data)

    def pending(self):
        return len(self.wire)

    def frame_remaining(self):
        return self.frames[0] if self.frames else None

    def take(self, k):
        r = self.wire[:k]
        self.wire = self.wire[k:]
        n = k
        while n and self.frames:
            if self.frames[0] <= n:
                n -= self.frames.pop(0)
            else:
                self.frames[0] -= n
                n = 0
        return r


# ------------------------------------------------------------------------------------------------
#  reactive device
# ------------------------------------------------------------------------------------------------
class Stream:
    """One adbd-side stream.  Acknowledgements (OKAY) are emitted by adbd's packet handler as soon as a host WRTE is
    accepted, independently of the service's own writes, so they live in their own queue: a data item (WRTE/CLSE)
    queued by the service while processing host WRTE #k can never precede ack #k, but is otherwise free to go before or
    after later acks (`reorder` choice; default: acks first)."""

    def __init__(self, dev, lid, rid, dest):
        self.dev = dev
        self.lid = lid            # the host's id (arg1 of what the device sends)
        self.rid = rid            # the device's id (arg0 of what the device sends)
        self.dest = dest
        self.acks = []            # (cmd=b'OKAY', payload, tag)
        self.data = []            # (cmd, payload, tag, after_ack)
        self.acks_queued = 0
        self.acks_emitted = 0
        self.awaiting_okay = False
        self.dev_closed = False
        self.host_closed = False
        self.service = None
        self.host_wrtes = 0
        self.host_okays = 0
        self.dev_wrtes_sent = 0
        self.dev_wrte_payloads = []
        self.index = len(dev.all_streams)

    def okay(self, tag=None):
        self.acks.append((b'OKAY', b'', tag))
        self.acks_queued += 1

    def wrte(self, payload, tag=None):
        self.data.append((b'WRTE', as_sym(payload), tag, self.acks_queued))

    def clse(self, tag=None):
        self.data.append((b'CLSE', b'', tag, self.acks_queued))

    def data_ready(self):
        if not self.data:
            return False
        cmd, _, _, after = self.data[0]
        if self.acks_emitted < after and self.dev.strict_causality:
            return False
        if cmd == b'WRTE' and self.awaiting_okay and self.dev.flow_control:
            return False
        return True

    def candidates(self):
        """which of ('ack', 'data') may go on the wire now"""
        c = []
        if self.acks:
            c.append('ack')
        if self.data_ready():
            c.append('data')
        return c

    def head_ready(self):
        return bool(self.candidates())

    def has_queued_clse(self):
        return any(x[0] == b'CLSE' for x in self.data)


class SimDevice:
    """Reactive adbd model.  Services are objects with on_open(stream), on_wrte(stream, payload), on_okay(stream),
    on_clse(stream).  `pick(ready)` chooses which ready stream's packet goes on the wire next."""

    def __init__(self, ctx, services, maxdata=4096, banner=b'device::\0', auth=None, rid_alloc=None, pick=None, gate=None, monitor=None, reorder=None):
        self.ctx = ctx
        self.eager = False
        self.flow_control = True         # False: a (non-conforming, but seen in the wild) device that does not wait for the OKAY between its WRTEs
        self.strict_causality = True     # False: protocol.txt only (a device WRTE may even precede the OKAY for the host WRTE that caused it)
        self.version = VERSION           # arg0 of the device's CNXN (may be symbolic)
        self.reorder = reorder            # callable(stream, candidates) -> index : ack vs. data ordering where adbd leaves it free
        self.services = services          # callable(dest_bytes) -> service object or None
        self.maxdata = maxdata
        self.banner = banner
        self.auth = auth
        self.rid_alloc = rid_alloc or (lambda lid, n: 1000 + n)
        self.pick = pick
        self.gate = gate                  # callable(device, pkt_tuple) -> bool : may the device emit now?  (stall model)
        self.monitor = monitor
        self.decoder = HostDecoder(ctx, on_packet=self._on_packet)
        self.wire = SymBytes()
        self.frames = []
        self.ctrl = []                    # connection-level packets ready to go
        self.streams = core.SymDict()     # live: lid -> Stream (lids may be symbolic)
        self.all_streams = []
        self.emitted = []                 # (cmd, a0, a1, payload, stream)
        self.online = False
        self.sessions = 0
        self.log = []

    # --- transport side
    def on_connect(self):
        self.online = True
        self.sessions += 1
        self.wire = SymBytes()
        self.frames = []
        self.ctrl = []
        self.streams = core.SymDict()
        self.decoder.buf = SymBytes()
        if self.auth is not None:
            self.auth.reset()

    def on_close(self):
        self.online = False

    def host_wrote(self, data):
        self.decoder.feed(data)
        if self.eager:
            # an eager device puts everything it may send on the wire at once (data can be in flight when the host closes)
            n = 0
            while self._ready() and n < 64:
                before = len(self.emitted)
                self._fill()
                if len(self.emitted) == before:
                    break
                n += 1

    def pending(self):
        if not len(self.wire):
            self._fill()
        return len(self.wire)

    def frame_remaining(self):
        return self.frames[0] if self.frames else None

    take = ScriptDevice.take

    def _ready(self):
        r = []
        if self.ctrl:
            r.append(None)
        for s in self.all_streams:
            if s.head_ready():
                r.append(s)
        return r

    def _fill(self):
        ready = self._ready()
        if not ready:
            return
        if len(ready) > 1 and self.pick is not None:
            s = ready[self.pick(ready)]
        else:
            s = ready[0]
        if s is None:
            pkt = self.ctrl[0]
            if self.gate is not None and not self.gate(self, pkt, None):
                return
            self.ctrl.pop(0)
            cmd, a0, a1, payload = pkt
            self._emit(cmd, a0, a1, payload, None, None)
            return
        cands = s.candidates()
        which = cands[0]
        if len(cands) > 1 and self.reorder is not None:
            which = cands[self.reorder(s, cands)]
        if which == 'ack':
            cmd, payload, tag = s.acks[0]
        else:
            cmd, payload, tag, _ = s.data[0]
        if self.gate is not None and not self.gate(self, (cmd, s.rid, s.lid, payload), s):
            return
        if which == 'ack':
            s.acks.pop(0)
            s.acks_emitted += 1
        else:
            s.data.pop(0)
        if cmd == b'WRTE':
            s.awaiting_okay = True
            s.dev_wrtes_sent += 1
            s.dev_wrte_payloads.append(payload)
        elif cmd == b'CLSE':
            s.dev_closed = True
            if s.host_closed:
                self.streams.pop(self._key(s.lid), None)
        self._emit(cmd, s.rid, s.lid, payload, s, tag)

    def _emit(self, cmd, a0, a1, payload, stream, tag):
        f = frame(cmd, a0, a1, payload)
        self.wire = self.wire + f
        self.frames.append(len(f))
        self.emitted.append((cmd, a0, a1, payload, stream, tag))
        if self.monitor is not None:
            self.monitor.device_sent(cmd, a0, a1, payload, stream, tag)

    def inject(self, pkt_bytes):
        """put raw bytes (e.g. a stray packet) on the wire right now"""
        pkt_bytes = as_sym(pkt_bytes)
        self.wire = self.wire + pkt_bytes
        self.frames.append(len(pkt_bytes))

    @staticmethod
    def _key(lid):
        return lid

    # --- host packets
    def _find_stream(self, lid):
        return self.streams.get(lid)       # SymDict: a symbolic id is compared with the live ids (may fork)

    def _on_packet(self, p):
        if self.monitor is not None:
            self.monitor.host_sent(p)
        cmd = p.cmd
        if cmd == b'CNXN':
            self.log.append(('CNXN', p.a0, p.a1, p.payload))
            if self.auth is None:
                self.ctrl.append((b'CNXN', self.version, self.maxdata, self.banner))
            else:
                self.auth.on_cnxn(self, p)
            return
        if cmd == b'AUTH':
            self.log.append(('AUTH', p.a0, p.a1, p.payload))
            if self.auth is not None:
                self.auth.on_auth(self, p)
            return
        if cmd == b'OPEN':
            lid = p.a0
            n = len(self.all_streams)
            rid = self.rid_alloc(lid, n)
            s = Stream(self, lid, rid, p.payload)
            self.all_streams.append(s)
            svc = self.services(p.payload, s)
            if svc is None:
                # adbd: cannot open the service -> CLSE(0, lid)
                s.rid = 0
                s.clse()
                s.host_closed = True
                return
            self.streams[self._key(lid)] = s
            s.service = svc
            svc.on_open(s)
            return
        s = self._find_stream(p.a0)
        if s is None:
            self.log.append(('stray', cmd, p.a0, p.a1))
            return
        if cmd == b'WRTE':
            s.host_wrtes += 1
            s.okay(tag=('ack', s.host_wrtes))
            s.service.on_wrte(s, p.payload)
        elif cmd == b'OKAY':
            s.host_okays += 1
            s.awaiting_okay = False
            s.service.on_okay(s)
        elif cmd == b'CLSE':
            s.host_closed = True
            if not s.dev_closed and not s.has_queued_clse():
                # the host closes first: drop undelivered data, answer with CLSE
                s.data = [x for x in s.data if x[0] != b'WRTE']
                s.clse(tag='reply')
            elif s.dev_closed:
                self.streams.pop(self._key(s.lid), None)
            s.service.on_clse(s)


# ------------------------------------------------------------------------------------------------
#  services
# ------------------------------------------------------------------------------------------------
class Service:
    def on_open(self, s):
        s.okay(tag='open')

    def on_wrte(self, s, payload):
        pass

    def on_okay(self, s):
        pass

    def on_clse(self, s):
        pass


class OutputService(Service):
    """shell:/exec:/root:/reboot: -> OKAY, the given payloads as WRTEs, CLSE"""

    def __init__(self, payloads, close=True, dup_clse=False):
        self.payloads = list(payloads)
        self.close = close
        self.dup_clse = dup_clse

    def on_open(self, s):
        s.okay(tag='open')
        for p in self.payloads:
            s.wrte(p, tag='out')
        if self.close:
            s.clse(tag='eof')
            if self.dup_clse:
                s.clse(tag='eof-repeated')      # some devices send the CLSE of a stream twice


class SyncFS:
    """The device's file system as the sync service sees it."""

    def __init__(self):
        self.stat = {}       # path(bytes) -> (mode, size, mtime)
        self.listing = {}    # path -> list of (mode, size, mtime, name)
        self.recv = {}       # path -> list of DATA record contents (each <= 64 KiB), or ('FAIL', reason, after_n_records)
        self.pushed = []     # (path_mode bytes, [data chunks], mtime, complete)
        self.accept_push = True


class SyncService(Service):
    """sync: service.  `packetize(reply_bytes, kind)` splits a reply into WRTE payloads (default: one packet).
    `fail` : None or dict(at=('send',)|('data', j)|('wrte', j)|('done',)|('recv',)|('recvdata', j), reason=bytes-like)
    """

    def __init__(self, fs, packetize=None, fail=None, bad_id=None, ok_delay=0):
        self.fs = fs
        self.packetize = packetize or (lambda b, kind: [b])
        self.fail = fail
        self.bad_id = bad_id       # None or dict(at=..., id=4 bytes) : answer with a (known) record id that is not valid at that point
        self.truncate_recv = None
        self.truncate_reply = None
        self.buf = SymBytes()
        self.cur = None            # current push: [pathmode, chunks, mtime]
        self.failed = False
        self.records = []          # (id, info) as parsed from the host
        self.ndata = 0
        self.stream_wrtes = 0

    def reply(self, s, data, kind):
        data = as_sym(data)
        if self.truncate_reply is not None and kind in ('LIST', 'STAT', 'RECV'):
            # the device stops in the middle of its reply (then stays silent, or closes the stream)
            n, then = self.truncate_reply
            self.truncate_reply = None
            for piece in self.packetize(data[:n], kind):
                s.wrte(piece, tag=kind)
            if then == 'clse':
                s.clse(tag='abort')
            return
        for piece in self.packetize(data, kind):
            s.wrte(piece, tag=kind)

    def _fail_now(self, s, where):
        f = self.fail
        if f is not None and not self.failed and tuple(f['at']) == tuple(where):
            self.failed = True
            reason = as_sym(f['reason'])
            self.reply(s, sync_rec(b'FAIL', len(reason), data=reason), 'FAIL')
            return True
        b = self.bad_id
        if b is not None and not self.failed and tuple(b['at']) == tuple(where):
            self.failed = True
            self.reply(s, b['record'], 'BAD')
            return True
        return False

    def on_wrte(self, s, payload):
        self.stream_wrtes += 1
        self.buf = self.buf + payload
        # 'wrte j': the device rejects on receiving the j-th host WRTE, before looking at the records it carries
        self._fail_now(s, ('wrte', self.stream_wrtes))
        self._process(s)

    def _process(self, s):
        ctx = s.dev.ctx
        while len(self.buf) >= 8:
            idb = self.buf[:4]
            if idb.ov:
                idb = SymBytes(core.concrete_bytes(idb))
            rid = bytes(idb.base)
            size = word_le(self.buf, 4)
            if rid == b'DONE':
                self.buf = self.buf[8:]
                self.records.append((rid, size))
                if self.cur is not None:
                    self.cur[2] = size
                    self.cur[3] = True
                    self.fs.pushed.append(tuple(self.cur))
                    self.cur = None
                if self.failed:
                    continue
                if self._fail_now(s, ('done',)):
                    continue
                self.reply(s, sync_rec(b'OKAY', 0), 'OKAY')
                continue
            if rid == b'QUIT':
                self.buf = self.buf[8:]
                self.records.append((rid, size))
                continue
            if rid not in (b'LIST', b'STAT', b'RECV', b'SEND', b'DATA'):
                ctx.fail('sync: host sent an unknown sync request id', detail=repr(rid))
                self.buf = SymBytes()
                return
            if isinstance(size, SymInt):
                size = core.concretize(size)
            if rid == b'DATA':
                ctx.check(size <= 65536, 'sync: DATA chunk <= 64 KiB', detail=str(size))
            if len(self.buf) < 8 + size:
                return
            body = self.buf[8:8 + size]
            self.buf = self.buf[8 + size:]
            self.records.append((rid, body))
            if rid == b'DATA':
                self.ndata += 1
                if self.cur is not None:
                    self.cur[1].append(body)
                if not self.failed:
                    self._fail_now(s, ('data', self.ndata))
                continue
            path = core.norm(body)
            if rid == b'SEND':
                self.cur = [path, [], None, False]
                if not self.failed:
                    self._fail_now(s, ('send',))
            elif rid == b'STAT':
                mode, sz, mt = self.fs.stat.get(path if isinstance(path, bytes) else None, (0, 0, 0))
                self.reply(s, sync_rec(b'STAT', mode, sz, mt), 'STAT')
            elif rid == b'LIST':
                out = SymBytes()
                for (mode, sz, mt, name) in self.fs.listing.get(path, []):
                    name = as_sym(name)
                    out = out + sync_rec(b'DENT', mode, sz, mt, len(name), data=name)
                out = out + sync_rec(b'DONE', 0, 0, 0, 0)
                self.reply(s, out, 'LIST')
            elif rid == b'RECV':
                if self._fail_now(s, ('recv',)):
                    continue
                plan = self.fs.recv.get(path)
                if plan is None:
                    reason = b'No such file or directory'
                    self.reply(s, sync_rec(b'FAIL', len(reason), data=reason), 'FAIL')
                    continue
                out = SymBytes()
                stopped = False
                for j, rec in enumerate(plan):
                    rec = as_sym(rec)
                    out = out + sync_rec(b'DATA', len(rec), data=rec)
                    f = self.fail
                    b = self.bad_id
                    if f is not None and tuple(f['at']) == ('recvdata', j + 1):
                        reason = as_sym(f['reason'])
                        out = out + sync_rec(b'FAIL', len(reason), data=reason)
                        self.failed = True
                        stopped = True
                        break
                    if b is not None and tuple(b['at']) == ('recvdata', j + 1):
                        out = out + as_sym(b['record'])
                        self.failed = True
                        stopped = True
                        break
                if not stopped:
                    out = out + sync_rec(b'DONE', 0)
                if self.truncate_recv is not None:
                    # the device dies in the middle of the transfer: part of the stream, then CLSE
                    self.reply(s, out[:self.truncate_recv], 'RECV')
                    s.clse(tag='abort')
                    continue
                self.reply(s, out, 'RECV')


# ------------------------------------------------------------------------------------------------
#  authentication model (C05)
# ------------------------------------------------------------------------------------------------
AUTH_TOKEN, AUTH_SIGNATURE, AUTH_RSAPUBLICKEY = 1, 2, 3


class AuthModel:
    """accept: ('none',) no auth needed | ('key', k) | ('pubkey',) | ('never',)
    tokens(i) -> the i-th challenge (20 bytes, may be symbolic).  The signer stubs tag signatures with the key index;
    the device accepts on the tag, the harness separately proves that the signed value is the latest token."""

    def __init__(self, accept, tokens, sig_key_of, token_arg0=AUTH_TOKEN, cnxn_maxdata=4096, banner=b'device::\0'):
        self.accept = accept
        self.tokens = tokens
        self.sig_key_of = sig_key_of        # callable(signature bytes) -> key index
        self.token_arg0 = token_arg0        # callable(i) or int
        self.cnxn_maxdata = cnxn_maxdata
        self.banner = banner
        self.reset()

    def reset(self):
        self.issued = []
        self.sigs = []
        self.pubkeys = []
        self.events = []

    def _challenge(self, dev):
        i = len(self.issued)
        tok = as_sym(self.tokens(i))
        self.issued.append(tok)
        a0 = self.token_arg0(i) if callable(self.token_arg0) else self.token_arg0
        dev.ctrl.append((b'AUTH', a0, 0, tok))
        self.events.append(('challenge', i))

    def _cnxn(self, dev):
        dev.ctrl.append((b'CNXN', VERSION, self.cnxn_maxdata, self.banner))
        self.events.append(('cnxn',))

    def on_cnxn(self, dev, p):
        if self.accept[0] == 'none':
            self._cnxn(dev)
        else:
            self._challenge(dev)

    def on_auth(self, dev, p):
        a0 = p.a0
        if isinstance(a0, SymInt):
            a0 = core.concretize(a0)
        if a0 == AUTH_SIGNATURE:
            k = self.sig_key_of(p.payload)
            self.sigs.append((k, p.payload, len(self.issued) - 1))
            self.events.append(('sig', k))
            if self.accept[0] == 'key' and self.accept[1] == k:
                self._cnxn(dev)
            else:
                self._challenge(dev)
        elif a0 == AUTH_RSAPUBLICKEY:
            self.pubkeys.append(p.payload)
            self.events.append(('pubkey',))
            if self.accept[0] == 'pubkey':
                self._cnxn(dev)
            elif self.accept[0] == 'rechallenge':
                self._challenge(dev)


# ------------------------------------------------------------------------------------------------
#  stream-protocol monitor (C04): judges the HOST's packets against AOSP protocol.txt stream rules
# ------------------------------------------------------------------------------------------------
class MStream:
    def __init__(self, lid, index):
        self.lid = lid
        self.index = index
        self.rid = None            # announced by the device's first OKAY
        self.dev_wrtes = 0         # device WRTEs put on the wire so far
        self.host_okays = 0
        self.host_wrtes = 0
        self.host_wrte_outstanding = False
        self.host_clses = 0
        self.dev_clse = False
        self.after_close = 0
        self.dest = None


class Monitor:
    def __init__(self, ctx):
        self.ctx = ctx
        self.streams = []          # all streams, in OPEN order
        self.live = {}             # lid -> MStream (until host CLSE)
        self.violations = 0

    def _chk(self, prop, label, detail=None):
        ok = self.ctx.check(prop, 'protocol: ' + label, detail)
        if not ok:
            self.violations += 1
        return ok

    def streams_by_dest(self, dest):
        for ms in reversed(self.streams):
            if ms.dest is not None and ms.dest == dest:
                return ms
        return None

    # --- device side (called when a packet goes on the wire, i.e. as the host is reading it)
    def device_sent(self, cmd, a0, a1, payload, stream, tag):
        if stream is None:
            return
        ms = self._by_lid(stream.lid, any_state=True)
        if ms is None:
            return
        if cmd == b'OKAY':
            if ms.rid is None:
                ms.rid = a0
            if isinstance(tag, tuple) and tag[0] == 'ack':
                ms.host_wrte_outstanding = False
        elif cmd == b'WRTE':
            ms.dev_wrtes += 1
        elif cmd == b'CLSE':
            ms.dev_clse = True

    def _by_lid(self, lid, any_state=False):
        if isinstance(lid, SymInt):
            for s in reversed(self.streams):
                if s.lid == lid:
                    return s
            return None
        s = self.live.get(lid)
        if s is None and any_state:
            for x in reversed(self.streams):
                if not isinstance(x.lid, SymInt) and x.lid == lid:
                    return x
        return s

    # --- host side
    def host_sent(self, p):
        cmd = p.cmd
        if cmd in (b'CNXN', b'AUTH'):
            return
        if cmd == b'OPEN':
            lid = p.a0
            self._chk(sand(lid >= 1, lid <= M32), 'OPEN carries a local id in [1, 2^32-1]', detail=repr(lid))
            self._chk(p.a1 == 0, 'OPEN carries arg1 == 0')
            pl = p.payload
            self._chk(len(pl) > 0 and pl[len(pl) - 1] == 0, 'OPEN destination is NUL-terminated')
            for s in self.live.values():
                self._chk(s.lid != lid, 'OPEN uses a local id that no open stream is using', detail='%r vs live %r' % (lid, s.lid))
            ms = MStream(lid, len(self.streams))
            ms.dest = pl
            self.streams.append(ms)
            if not isinstance(lid, SymInt):
                self.live[lid] = ms
            return
        ms = self._by_lid(p.a0)
        if ms is None:
            old = self._by_lid(p.a0, any_state=True)
            if old is not None and old.host_clses:
                old.after_close += 1
                self._chk(False, 'nothing is sent on a stream after its CLSE', detail=repr(p))
            else:
                self._chk(False, 'every packet after OPEN carries the local id of an open stream', detail=repr(p))
            return
        if ms.rid is None:
            self._chk(False, "nothing is sent on a stream before the device's OKAY announced the remote id", detail=repr(p))
            return
        self._chk(p.a1 == ms.rid, 'every later packet carries (local id, remote id announced by the device)', detail=repr(p))
        if cmd == b'OKAY':
            ms.host_okays += 1
            self._chk(ms.host_okays <= ms.dev_wrtes, 'an OKAY is sent only for a device WRTE (never more OKAYs than WRTEs received)',
                      detail='%d OKAYs for %d device WRTEs' % (ms.host_okays, ms.dev_wrtes))
        elif cmd == b'WRTE':
            self._chk(not ms.host_wrte_outstanding, "no second WRTE before the device acknowledged the previous one (stop-and-wait)")
            ms.host_wrtes += 1
            ms.host_wrte_outstanding = True
        elif cmd == b'CLSE':
            ms.host_clses += 1
            self._chk(ms.host_clses == 1, 'exactly one CLSE per stream')
            if not isinstance(ms.lid, SymInt):
                self.live.pop(ms.lid, None)
        else:
            self._chk(False, 'only OKAY/WRTE/CLSE follow an OPEN on a stream', detail=repr(p))

    def finish(self, expect_closed=True, skip=()):
        """after operations that completed normally"""
        for ms in self.streams:
            if ms.index in skip:
                continue
            self._chk(ms.host_okays == ms.dev_wrtes, 'every device WRTE that was read is acknowledged with exactly one OKAY',
                      detail='stream %d: %d OKAYs for %d device WRTEs' % (ms.index, ms.host_okays, ms.dev_wrtes))
            if expect_closed:
                self._chk(ms.host_clses == 1, 'the stream is closed with exactly one CLSE (answering the device CLSE or initiating)',
                          detail='stream %d: %d CLSEs' % (ms.index, ms.host_clses))
