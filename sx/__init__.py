"""SX: proxy-based symbolic execution of the real adb_shell source with z3 (see DESIGN.md section 2)."""
