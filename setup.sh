#!/bin/bash
# Build the overlay venv used by every check (offline). Idempotent.
set -e
cd "$(dirname "$0")"
if [ ! -x .venv/bin/python ] || ! .venv/bin/python -c 'import z3' 2>/dev/null; then
  rm -rf .venv
  /venv/bin/python -m venv .venv
  echo "import site; site.addsitedir('/venv/lib/python3.12/site-packages')" > .venv/lib/python3.12/site-packages/_venv_overlay.pth
  PIP_NO_INDEX=1 .venv/bin/pip install -q --no-index --find-links /opt/veriftools/wheels z3-solver >/dev/null
fi
.venv/bin/python -c 'import z3; print("z3", z3.get_version_string())'
